/* layer S: solve.c orchestration under shape contracts (contracts/orch_shape_contracts.h); all dimensions, the rank, the
 * cutoff and the flags symbolic; loop contracts inserted mechanically (loops/solve.json).  -DH_<NAME>. */
#include <m4ri/solve.c>
#include "orch_shape_contracts.h"
int vg_live, vg_plive;
mzd_t const *vg_tri;
int vg_rank;
long vg_solved;

void harness(void) {
  mzd_t a, b;
  mzp_t p, q;
  int live0, plive0, cutoff, rank, chk;
  __CPROVER_assume(live0 >= 0 && live0 < 1000 && plive0 >= 0 && plive0 < 1000);
  long solved0;
  __CPROVER_assume(solved0 >= 0 && solved0 < (1L << 40));
  vg_solved = solved0;
  vg_live = live0, vg_plive = plive0;
#if defined(H_PLUQ_SOLVE)
  _mzd_pluq_solve_left(&a, rank, &p, &q, &b, cutoff, chk);
#elif defined(H_PLUQ_SOLVE_W)
  mzd_pluq_solve_left(&a, rank, &p, &q, &b, cutoff, chk);
#elif defined(H_SOLVE)
  _mzd_solve_left(&a, &b, cutoff, chk);
#elif defined(H_KERNEL)
  mzd_kernel_left_pluq(&a, cutoff);
#endif
#ifdef VP_CANARY
  __CPROVER_assert(0, "canary: call returns under the pre-condition");
#endif
}
