/* layer K: mzd_combine_even / _in_place / mzd_combine and mzd_copy_row.  Three operands C, A, B built over
 * separate blocks of the same shape (NR NC PR PRS R0 W0 WIN); ALIAS = 0 distinct, 1 C==A (same object), 2 all three equal.
 * Start blocks ASB BSB CSB are concrete (enumerated), rows and contents symbolic. */
#include <m4ri/mzd.h>
#include "mzd_contracts.h"

int vg_r, vg_w, vg_b, vh_r, vh_w, vk_r, vk_w, vg_i, vg_j;
#ifndef ALIAS
#define ALIAS 0
#endif

void harness(void) {
  VP_MAT_DECL(C, PR, PRS);
  VP_MAT_SETUP(C, PR, PRS, NR, NC, R0, W0, WIN);
#if ALIAS == 0
  VP_MAT_DECL(A, PR, PRS);
  VP_MAT_SETUP(A, PR, PRS, NR, NC, R0, W0, WIN);
#else
  mzd_t *A = C;
#endif
#if ALIAS <= 1
  VP_MAT_DECL(B, B_PR, B_PRS);
#ifdef SRC_NC
  VP_MAT_SETUP(B, B_PR, B_PRS, NR, SRC_NC, B_R0, B_W0, B_WIN);
#else
  VP_MAT_SETUP(B, B_PR, B_PRS, NR, NC, B_R0, B_W0, B_WIN);
#endif
#else
  mzd_t *B = C;
#endif
  VP_IN(int, in_gr);
  VP_IN(int, in_gw);
  vg_r = in_gr;
  vg_w = in_gw;
  VP_ASSUME(vg_r >= -(R0) && vg_r < (PR) - (R0) && vg_w >= -(W0) && vg_w < (PRS) - (W0));
  VP_IN(int, in_crow);
  VP_IN(int, in_arow);
  VP_IN(int, in_brow);
#if defined(H_COMBINE_EVEN)
  VP_PRE(REQ_mzd_combine_even(C, in_crow, CSB, A, in_arow, ASB, B, in_brow, BSB));
  VP_SNAPSHOT();
  mzd_combine_even(C, in_crow, CSB, A, in_arow, ASB, B, in_brow, BSB);
  VP_CANARY();
  VP_POST(ENS1_mzd_combine_even(C, in_crow, CSB, A, in_arow, ASB, B, in_brow, BSB));
  VP_POST(ENS2_mzd_combine_even(C, in_crow, CSB, A, in_arow, ASB, B, in_brow, BSB));
#elif defined(H_COMBINE_EVEN_IN_PLACE)
  VP_PRE(REQ_mzd_combine_even(C, in_crow, CSB, C, in_crow, CSB, B, in_brow, BSB));
  VP_SNAPSHOT();
  mzd_combine_even_in_place(C, in_crow, CSB, B, in_brow, BSB);
  VP_CANARY();
  VP_POST(ENS1_mzd_combine_even(C, in_crow, CSB, C, in_crow, CSB, B, in_brow, BSB));
  VP_POST(ENS2_mzd_combine_even(C, in_crow, CSB, C, in_crow, CSB, B, in_brow, BSB));
#elif defined(H_COMBINE)
  VP_PRE(REQ_mzd_combine_even(C, in_crow, CSB, A, in_arow, ASB, B, in_brow, BSB));
  VP_SNAPSHOT();
  mzd_combine(C, in_crow, CSB, A, in_arow, ASB, B, in_brow, BSB);
  VP_CANARY();
  VP_POST(ENS1_mzd_combine_even(C, in_crow, CSB, A, in_arow, ASB, B, in_brow, BSB));
  VP_POST(ENS2_mzd_combine_even(C, in_crow, CSB, A, in_arow, ASB, B, in_brow, BSB));
#elif defined(H_COPY_ROW)
  VP_IN(int, in_hr);
  VP_IN(int, in_hw);
  vh_r = in_hr;
  vh_w = in_hw;
  VP_ASSUME(vh_r >= -(B_R0) && vh_r < (B_PR) - (B_R0) && vh_w >= -(B_W0) && vh_w < (B_PRS) - (B_W0));
  /* destination C (NR x NC), source B (NR x SRC_NC) */
  VP_PRE(REQ_mzd_copy_row(C, in_crow, B, in_brow));
  VP_SNAPSHOT();
  mzd_copy_row(C, in_crow, B, in_brow);
  VP_CANARY();
  VP_POST(ENS1_mzd_copy_row(C, in_crow, B, in_brow));
  VP_POST(ENS2_mzd_copy_row(C, in_crow, B, in_brow));
  VP_POST(VP_UNCHANGED_H(B));
#else
#error mode
#endif
}
