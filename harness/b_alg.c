/* layer B: elimination, factorisation, triangular solves, inversion, solving, kernel against spec-side linear
 * algebra on small shapes (assert mode; all operand bits symbolic).  Shape: M_ x N_ (and BW columns of right-hand side). */
#define VR VRMAX
#define VC VCMAX
#include <m4ri/m4ri.h>
#include "alg_spec.h"
#include "vp_codebook.h"

int vg_r, vg_w, vg_b, vh_r, vh_w, vk_r, vk_w, vg_i, vg_j;

/* VP-ASSUMPTION: stubs standing in for the factorisation inside solve.c where a group says so (solve.c compiled with
 * -D_mzd_pluq=vp_stub_pluq etc.): they return an arbitrary rank / verdict (SOLVE_PAD) or the harness-constructed
 * factorisation of concrete rank (KERNEL); the real routines carry the certificate contract of C03. */
int vp_stub_rank;
rci_t *vp_stub_Q;
/* rank-0 "factorisation" with identity permutations: keeps every shape inside the PLUQ solve concrete; only used where
 * the obligation does not depend on the factorisation (padding rows of B) */
rci_t vp_stub_pluq0(mzd_t *A, mzp_t *P, mzp_t *Q, int cutoff) {
  for (int i = 0; i < P->length; ++i) P->values[i] = i;
  for (int j = 0; j < Q->length; ++j) Q->values[j] = j;
  return 0;
}
rci_t vp_stub_pluq_given(mzd_t *A, mzp_t *P, mzp_t *Q, int cutoff) {
  for (int j = 0; j < Q->length; ++j) Q->values[j] = vp_stub_Q[j];
  return vp_stub_rank;
}
#define EV(n) ((((n) + 63) / 64 + 1) & ~1)
#ifndef FULL
#define FULL 1
#endif
#ifndef KPAR
#define KPAR 0
#endif
#ifndef CUTOFF
#define CUTOFF 0
#endif

void harness(void) {
  vp_build_codes(KMAXBUILD);
  VP_MAT_DECL(A, A_PR, A_PRS);
  VP_MAT_SETUP(A, A_PR, A_PRS, M_, N_, A_R0, A_W0, A_WIN);
  vp_mat_t A0, R, T1, T2;
  int piv[VR], piv2[VR];
  vp_read(&A0, A);

#if defined(H_ECH_NAIVE) || defined(H_ECH_M4RI) || defined(H_ECH_PLUQ) || defined(H_ECH) || defined(H_TOP_ECH)
  /* ---- C02: rank, RREF / REF with the same row space ---- */
#if defined(H_ECH_NAIVE)
  rci_t r = mzd_echelonize_naive(A, FULL);
#elif defined(H_ECH_M4RI)
  rci_t r = mzd_echelonize_m4ri(A, FULL, KPAR);
#elif defined(H_ECH_PLUQ)
  rci_t r = mzd_echelonize_pluq(A, FULL);
#elif defined(H_ECH)
  rci_t r = mzd_echelonize(A, FULL);
#else
  rci_t r = mzd_echelonize_naive(A, 0); /* a row echelon form ... */
  mzd_top_echelonize_m4ri(A, KPAR);     /* ... completed by the top-reduction routine */
#endif
  VP_CANARY();
  vp_read(&R, A);
  T1     = A0;
  int rk = vp_rref(&T1, piv);
  VP_ASSERT(r == rk, "echelonize returns rank(A)");
#if FULL || defined(H_TOP_ECH)
  VP_ASSERT(vp_eq(&R, &T1), "full reduction leaves exactly the unique reduced row echelon form of A");
#else
  VP_ASSERT(vp_is_ref(&R), "result is a row echelon form (strictly increasing pivot columns, zero rows last)");
  T2 = R;
  vp_rref(&T2, piv2);
  VP_ASSERT(vp_eq(&T2, &T1), "result spans the same row space (same RREF)");
#endif

#elif defined(H_PLUQ_NAIVE) || defined(H_PLE_NAIVE) || defined(H_PLUQ) || defined(H_PLE)
  /* ---- C03: certificate P L U Q = A (resp. P L E = A), LAPACK ranges, rank, zero storage, junk P/Q on entry ---- */
  VP_IN_ARR(rci_t, in_P, M_);
  VP_IN_ARR(rci_t, in_Q, N_);
  mzp_t Ps, Qs;
  Ps.values = in_P, Ps.length = M_, Qs.values = in_Q, Qs.length = N_;
#if defined(H_PLUQ_NAIVE)
  rci_t r = _mzd_pluq_naive(A, &Ps, &Qs);
#elif defined(H_PLE_NAIVE)
  rci_t r = _mzd_ple_naive(A, &Ps, &Qs);
#elif defined(H_PLUQ)
  rci_t r = mzd_pluq(A, &Ps, &Qs, CUTOFF);
#else
  rci_t r = mzd_ple(A, &Ps, &Qs, CUTOFF);
#endif
  VP_CANARY();
  VP_ASSERT(r == vp_rank(&A0), "factorisation returns rank(A)");
  int ok = 1;
  for (int i = 0; i < M_; ++i) ok = ok && in_P[i] >= i && in_P[i] < M_;
  for (int j = 0; j < N_; ++j) ok = ok && in_Q[j] >= j && in_Q[j] < N_;
  VP_ASSERT(ok, "P and Q are in LAPACK swap form whatever they contained on entry");
  vp_read(&R, A);
#if defined(H_PLE_NAIVE) || defined(H_PLE)
  /* column rank profile: Q[0..r) strictly increasing and equal to the pivot columns of the RREF of A */
  T1 = A0;
  vp_rref(&T1, piv);
  int prof = 1;
  for (int t = 0; t < VR; ++t)
    if (t < r && t < N_) prof = prof && in_Q[t] == piv[t];
  VP_ASSERT(prof, "the first r entries of Q are the pivot columns (column rank profile of A)");
  /* E -> U: the 'triangular' transposed application of Q (spec-level: swap i on the rows above row i) */
  for (int i = 0; i < N_; ++i) { /* swap columns i and Q[i] in the rows above row i (concrete-index scan, no symbolic array index) */
    vp_mat_t Sw = R;
    vp_swap_cols(&Sw, i, in_Q[i]);
    for (int rr = 0; rr < VR; ++rr)
      if (rr < M_ && rr < i)
        for (int jc = 0; jc < VC; ++jc) R.a[rr][jc] = Sw.a[rr][jc];
  }
#endif
  /* L: m x r unit lower, U: r x n upper (unit diagonal), everything else must be zero */
  vp_mat_t L, U;
  L.nr = M_, L.nc = M_, U.nr = M_, U.nc = N_;
  int zero_ok = 1;
  for (int i = 0; i < VR; ++i)
    for (int j = 0; j < VC; ++j) {
      L.a[i][j] = (i < M_ && j < r && j < i) ? R.a[i][j] : (unsigned char)(i == j && i < M_);
      U.a[i][j] = (i < r && j < N_ && j > i) ? R.a[i][j] : (unsigned char)(i == j && i < r);
      if (i < M_ && j < N_ && i >= r && j >= r) zero_ok = zero_ok && R.a[i][j] == 0;
      if (i < r && i == j) zero_ok = zero_ok && R.a[i][j] == 1;
    }
  VP_ASSERT(zero_ok, "pivots are ones and storage outside the L and U regions is zero");
  vp_mul(&T2, &L, &U);
  /* P^T A Q^T: row swaps ascending, column swaps ascending on the original */
  T1 = A0;
  for (int i = 0; i < M_; ++i) vp_swap_rows(&T1, i, in_P[i]);
  for (int j = 0; j < N_; ++j) vp_swap_cols(&T1, j, in_Q[j]);
  T2.nr = T1.nr, T2.nc = T1.nc;
  VP_ASSERT(vp_eq(&T2, &T1), "P L U Q reconstructs the original A");

#elif defined(H_TRSM_LL) || defined(H_TRSM_UL) || defined(H_TRSM_UR) || defined(H_TRSM_LR)
  /* ---- C04: T (M_ x M_) with symbolic junk in the opposite triangle and on the diagonal; B symbolic ---- */
  vp_mat_t Tm = A0;
  for (int i = 0; i < VR; ++i)
    for (int j = 0; j < VC; ++j) {
#if defined(H_TRSM_LL) || defined(H_TRSM_LR)
      if (j > i) Tm.a[i][j] = 0;
#else
      if (j < i) Tm.a[i][j] = 0;
#endif
      if (i == j && i < M_) Tm.a[i][j] = 1;
    }
#if defined(H_TRSM_LL) || defined(H_TRSM_UL)
  VP_MAT_DECL(B, B_PR, B_PRS);
  VP_MAT_SETUP(B, B_PR, B_PRS, M_, BW, B_R0, B_W0, B_WIN);
#else
  VP_MAT_DECL(B, B_PR, B_PRS);
  VP_MAT_SETUP(B, B_PR, B_PRS, BW, M_, B_R0, B_W0, B_WIN);
#endif
  vp_mat_t B0, X;
  vp_read(&B0, B);
  VP_IN(int, in_hr);
  VP_IN(int, in_hw);
  VP_ASSUME(in_hr >= 0 && in_hr < M_ && in_hw >= 0 && in_hw < A->rowstride);
  word told = VP_W(A, in_hr, in_hw);
#if defined(H_TRSM_LL)
  mzd_trsm_lower_left(A, B, CUTOFF);
#elif defined(H_TRSM_UL)
  mzd_trsm_upper_left(A, B, CUTOFF);
#elif defined(H_TRSM_UR)
  mzd_trsm_upper_right(A, B, CUTOFF);
#else
  mzd_trsm_lower_right(A, B, CUTOFF);
#endif
  VP_CANARY();
  vp_read(&X, B);
#if defined(H_TRSM_LL) || defined(H_TRSM_UL)
  vp_mul(&T2, &Tm, &X);
#else
  vp_mul(&T2, &X, &Tm);
#endif
  VP_ASSERT(vp_eq(&T2, &B0), "T*X == B (left) resp. X*T == B (right) with only the named triangle of T read");
  VP_ASSERT(VP_W(A, in_hr, in_hw) == told, "T is unchanged");

#elif defined(H_INV_M4RI) || defined(H_INV_NAIVE) || defined(H_TRTRI)
  /* ---- C05 ---- */
#if defined(H_TRTRI)
  /* unit upper triangular U (strict lower part zero): in-place inverse */
  for (int i = 0; i < M_; ++i)
    for (int j = 0; j < M_; ++j) {
      if (j < i) mzd_write_bit(A, i, j, 0);
      if (j == i) mzd_write_bit(A, i, j, 1);
    }
  vp_read(&A0, A);
  mzd_trtri_upper(A);
  VP_CANARY();
  vp_read(&R, A);
  vp_mul(&T1, &R, &A0);
  vp_identity(&T2, M_);
  VP_ASSERT(vp_eq(&T1, &T2), "trtri: U^-1 * U == I");
  int tri = 1;
  for (int i = 0; i < M_; ++i)
    for (int j = 0; j <= i && j < M_; ++j) tri = tri && R.a[i][j] == (i == j);
  VP_ASSERT(tri, "trtri: the inverse is again unit upper triangular");
#else
  VP_ASSUME(vp_rank(&A0) == M_); /* invertible inputs */
#if defined(H_INV_M4RI)
  mzd_t *Binv = mzd_inv_m4ri(NULL, A, KPAR);
#else
  mzd_t *I = mzd_init(M_, M_);
  mzd_set_ui(I, 1);
  mzd_t *Binv = mzd_invert_naive(NULL, A, I);
#endif
  VP_CANARY();
  VP_ASSERT(Binv != NULL && Binv->nrows == M_ && Binv->ncols == M_, "inverse has the dimensions of A");
  vp_read(&R, Binv);
  vp_read(&T1, A);
  VP_ASSERT(vp_eq(&T1, &A0), "inversion leaves A unchanged");
  vp_identity(&T2, M_);
  vp_mul(&T1, &A0, &R);
  VP_ASSERT(vp_eq(&T1, &T2), "A * B == I");
  vp_mul(&T1, &R, &A0);
  VP_ASSERT(vp_eq(&T1, &T2), "B * A == I");
#endif

#elif defined(H_PLUQ_SOLVE)
  /* ---- C06 (a): the variant that is handed a PLUQ factorisation, rank RK concrete (all shapes inside are then concrete).
   * A holds an arbitrary factorisation: L (m x RK, below the diagonal), U (RK x n, on and right of the unit diagonal), zero
   * elsewhere; P, Q arbitrary LAPACK permutations.  The original matrix is reconstructed spec-side. ---- */
#define BR (M_ > N_ ? M_ : N_)
  VP_IN_ARR(rci_t, in_P, M_);
  VP_IN_ARR(rci_t, in_Q, N_);
  mzp_t Ps, Qs;
  Ps.values = in_P, Ps.length = M_, Qs.values = in_Q, Qs.length = N_;
  for (int i = 0; i < M_; ++i) VP_ASSUME(in_P[i] >= i && in_P[i] < M_);
  for (int jq = 0; jq < N_; ++jq) VP_ASSUME(in_Q[jq] >= jq && in_Q[jq] < N_);
  vp_mat_t L, U, Orig;
  L.nr = M_, L.nc = M_, U.nr = M_, U.nc = N_;
  for (int i = 0; i < VR; ++i)
    for (int jc = 0; jc < VC; ++jc) {
      if (i < M_ && jc < N_) {
        int keep = (jc < RK && jc < i) || (i < RK && jc > i); /* strictly-lower part of the first RK columns, strictly-upper part of the first RK rows */
        int diag = (i == jc && i < RK);
        if (!keep) mzd_write_bit(A, i, jc, diag);
      }
    }
  vp_read(&A0, A);
  for (int i = 0; i < VR; ++i)
    for (int jc = 0; jc < VC; ++jc) {
      L.a[i][jc] = (i < M_ && jc < RK && jc < i) ? A0.a[i][jc] : (unsigned char)(i == jc && i < M_);
      U.a[i][jc] = (i < RK && jc < N_ && jc > i) ? A0.a[i][jc] : (unsigned char)(i == jc && i < RK);
    }
  vp_mul(&Orig, &L, &U); /* P^T A Q^T = L U  =>  A = undo the swaps in reverse order */
  for (int jq = N_ - 1; jq >= 0; --jq) vp_swap_cols(&Orig, jq, in_Q[jq]);
  for (int i = M_ - 1; i >= 0; --i) vp_swap_rows(&Orig, i, in_P[i]);
  Orig.nr = M_, Orig.nc = N_;
  VP_MAT_DECL(B, BR, EV(BW));
  VP_MAT_SETUP(B, BR, EV(BW), BR, BW, 0, 0, 0);
  vp_mat_t B0, X, Aug;
  vp_read(&B0, B);
  int ret = mzd_pluq_solve_left(A, RK, &Ps, &Qs, B, CUTOFF, 1);
  VP_CANARY();
  Aug.nr = BR, Aug.nc = N_ + BW;
  for (int i = 0; i < VR; ++i)
    for (int jc = 0; jc < VC; ++jc) Aug.a[i][jc] = (i < BR && jc < N_ + BW) ? (jc < N_ ? (i < M_ ? Orig.a[i][jc] : 0) : B0.a[i][jc - N_]) : 0;
  int solvable = vp_rank(&Aug) == vp_rank(&Orig);
  VP_ASSERT(vp_rank(&Orig) == RK, "harness sanity: the constructed factorisation has rank RK");
  VP_ASSERT((ret == 0) == solvable, "pluq_solve returns 0 exactly when A*X == B (including the padding rows) has a solution");
  VP_ASSERT(ret == 0 || ret == -1, "pluq_solve returns 0 or -1");
  if (ret == 0) {
    vp_read(&X, B);
    X.nr = N_;
    for (int i = 0; i < VR; ++i)
      for (int jc = 0; jc < VC; ++jc)
        if (i >= N_) X.a[i][jc] = 0;
    vp_mul(&T1, &Orig, &X);
    vp_mat_t Btop = B0;
    Btop.nr       = M_;
    for (int i = 0; i < VR; ++i)
      for (int jc = 0; jc < VC; ++jc)
        if (i >= M_) Btop.a[i][jc] = 0;
    VP_ASSERT(vp_eq(&T1, &Btop), "the first n rows of B hold X with A*X == original right-hand side");
  }

#elif defined(H_SOLVE_PAD)
  /* ---- C06 (b): _mzd_solve_left's own padding check, with _mzd_pluq replaced by a rank-0 stub (the obligation does not
   * depend on the factorisation): a non-zero padding row of B (rows m..max(m,n)-1) yields -1 ---- */
#define BR (M_ > N_ ? M_ : N_)
  VP_MAT_DECL(B, BR, EV(BW));
  VP_MAT_SETUP(B, BR, EV(BW), BR, BW, 0, 0, 0);
  vp_mat_t B0;
  vp_read(&B0, B);
  int pad_nonzero = 0;
  for (int i = 0; i < VR; ++i)
    for (int jc = 0; jc < VC; ++jc)
      if (i >= M_ && i < BR && jc < BW && B0.a[i][jc]) pad_nonzero = 1;
  int ret = mzd_solve_left(A, B, CUTOFF, 1);
  VP_CANARY();
  VP_ASSERT(!pad_nonzero || ret == -1, "a system whose inconsistency sits only in a padding row of B is reported unsolvable");
  VP_ASSERT(ret == 0 || ret == -1, "solve returns 0 or -1");

#elif defined(H_KERNEL)
  /* ---- C07: mzd_kernel_left_pluq with mzd_pluq replaced by a stub that hands back an arbitrary factorisation of concrete rank RK
   * (constructed as in H_PLUQ_SOLVE): NULL iff RK == n, else n x (n-RK), A*K == 0 for the reconstructed original, columns independent ---- */
  VP_IN_ARR(rci_t, in_Q, N_);
  for (int jq = 0; jq < N_; ++jq) VP_ASSUME(in_Q[jq] >= jq && in_Q[jq] < N_);
  for (int i = 0; i < VR; ++i)
    for (int jc = 0; jc < VC; ++jc)
      if (i < M_ && jc < N_) {
        int keep = (jc < RK && jc < i) || (i < RK && jc > i);
        int diag = (i == jc && i < RK);
        if (!keep) mzd_write_bit(A, i, jc, diag);
      }
  vp_read(&A0, A);
  vp_mat_t U, Orig;
  U.nr = M_, U.nc = N_;
  for (int i = 0; i < VR; ++i)
    for (int jc = 0; jc < VC; ++jc) U.a[i][jc] = (i < RK && jc < N_ && jc > i) ? A0.a[i][jc] : (unsigned char)(i == jc && i < RK);
  Orig = U; /* kernel(A) = kernel(U Q) because P and L are invertible: it suffices to test (U Q) K == 0 */
  for (int jq = N_ - 1; jq >= 0; --jq) vp_swap_cols(&Orig, jq, in_Q[jq]);
  Orig.nr = M_, Orig.nc = N_;
  vp_stub_rank = RK;
  vp_stub_Q    = in_Q;
  mzd_t *K     = mzd_kernel_left_pluq(A, CUTOFF);
  VP_CANARY();
  VP_ASSERT((K == NULL) == (RK == N_), "kernel returns NULL exactly when rank == n");
  if (K != NULL) {
    VP_ASSERT(K->nrows == N_ && K->ncols == N_ - RK, "kernel basis is n x (n - r)");
    vp_mat_t Km;
    vp_read(&Km, K);
    vp_mul(&T1, &Orig, &Km);
    int z = 1;
    for (int i = 0; i < VR; ++i)
      for (int jc = 0; jc < VC; ++jc) z = z && T1.a[i][jc] == 0;
    VP_ASSERT(z, "A * K == 0 (tested on U*Q, equivalent because P and L are invertible)");
    VP_ASSERT(vp_rank(&Km) == N_ - RK, "the columns of K are linearly independent");
  }
#else
#error mode
#endif
}
