/* layer K: row / column / bit-range primitives of mzd.h and mzd.c, one concrete shape per instance.
 * Shape macros: NR NC (view), PR PRS (parent rows / rowstride), R0 W0 (placement), WIN (0 owned / 1 window). */
#include <m4ri/mzd.h>
#include "mzd_contracts.h"

int vg_r, vg_w, vg_b, vh_r, vh_w, vk_r, vk_w, vg_i, vg_j;

#define GHOSTS()                                                                                   \
  VP_IN(int, in_gr);                                                                               \
  VP_IN(int, in_gw);                                                                               \
  VP_IN(int, in_gb);                                                                               \
  vg_r = in_gr;                                                                                    \
  vg_w = in_gw;                                                                                    \
  vg_b = in_gb;                                                                                    \
  VP_ASSUME(vg_r >= -(R0) && vg_r < (PR) - (R0) && vg_w >= -(W0) && vg_w < (PRS) - (W0))

#define MATRIX()                                                                                   \
  VP_MAT_DECL(M, PR, PRS);                                                                         \
  VP_MAT_SETUP(M, PR, PRS, NR, NC, R0, W0, WIN)

#ifdef H_ROW_SWAP
void harness(void) {
  MATRIX();
  GHOSTS();
  VP_IN(int, in_a);
  VP_IN(int, in_b);
  VP_IN(int, in_sb);
  VP_ASSUME(in_sb >= 0 && in_sb <= 12);
  VP_PRE(REQ__mzd_row_swap(M, in_a, in_b, in_sb));
  VP_SNAPSHOT();
  _mzd_row_swap(M, in_a, in_b, in_sb);
  VP_CANARY();
  VP_POST(ENS1__mzd_row_swap(M, in_a, in_b, in_sb));
  VP_POST(ENS2__mzd_row_swap(M, in_a, in_b, in_sb));
  VP_POST(ENS3__mzd_row_swap(M, in_a, in_b, in_sb));
}
#endif

#ifdef H_COL_SWAP
void harness(void) {
  MATRIX();
  GHOSTS();
  VP_IN(int, in_a);
  VP_IN(int, in_b);
  VP_IN(int, in_r0);
  VP_IN(int, in_r1);
#ifdef ROW_LO
  in_r0 = ROW_LO;
  in_r1 = ROW_HI;
#endif
#ifdef AW /* word class of the two columns enumerated, bit positions symbolic */
  VP_ASSUME(in_a >= 0 && in_b >= 0 && in_a / 64 == AW && in_b / 64 == BW);
#endif
  VP_PRE(REQ_mzd_col_swap_in_rows(M, in_a, in_b, in_r0, in_r1));
  VP_SNAPSHOT();
  mzd_col_swap_in_rows(M, in_a, in_b, in_r0, in_r1);
  VP_CANARY();
  VP_POST(ENS1_mzd_col_swap_in_rows(M, in_a, in_b, in_r0, in_r1));
  VP_POST(ENS2_mzd_col_swap_in_rows(M, in_a, in_b, in_r0, in_r1));
  VP_POST(ENS3_mzd_col_swap_in_rows(M, in_a, in_b, in_r0, in_r1));
}
#endif

#ifdef H_ROW_ADD_OFFSET
void harness(void) {
  MATRIX();
  GHOSTS();
  VP_IN(int, in_dst);
  VP_IN(int, in_src);
  VP_IN(int, in_c0);
  VP_PRE(REQ_mzd_row_add_offset(M, in_dst, in_src, in_c0));
  VP_SNAPSHOT();
  mzd_row_add_offset(M, in_dst, in_src, in_c0);
  VP_CANARY();
  VP_POST(ENS1_mzd_row_add_offset(M, in_dst, in_src, in_c0));
  VP_POST(ENS2_mzd_row_add_offset(M, in_dst, in_src, in_c0));
}
#endif

#ifdef H_ROW_CLEAR_OFFSET
void harness(void) {
  MATRIX();
  GHOSTS();
  VP_IN(int, in_row);
  VP_IN(int, in_c0);
  VP_PRE(REQ_mzd_row_clear_offset(M, in_row, in_c0));
  VP_SNAPSHOT();
  mzd_row_clear_offset(M, in_row, in_c0);
  VP_CANARY();
  VP_POST(ENS1_mzd_row_clear_offset(M, in_row, in_c0));
  VP_POST(ENS2_mzd_row_clear_offset(M, in_row, in_c0));
}
#endif

#ifdef H_WRITE_BIT
void harness(void) {
  MATRIX();
  GHOSTS();
  VP_IN(int, in_row);
  VP_IN(int, in_col);
  VP_IN(int, in_v);
  VP_PRE(REQ_mzd_write_bit(M, in_row, in_col, in_v));
  VP_SNAPSHOT();
  mzd_write_bit(M, in_row, in_col, in_v);
  VP_CANARY();
  VP_POST(ENS1_mzd_write_bit(M, in_row, in_col, in_v));
  VP_POST(ENS2_mzd_write_bit(M, in_row, in_col, in_v));
}
#endif

#ifdef H_READ_BIT
void harness(void) {
  MATRIX();
  VP_IN(int, in_row);
  VP_IN(int, in_col);
  VP_PRE(REQ_mzd_read_bit(M, in_row, in_col));
  BIT r = mzd_read_bit(M, in_row, in_col);
  VP_CANARY();
  VP_POST(ENS1_mzd_read_bit(M, in_row, in_col, r));
}
#endif

#ifdef H_READ_BITS
void harness(void) {
  MATRIX();
  GHOSTS();
  VP_IN(int, in_x);
  VP_IN(int, in_y);
  VP_IN(int, in_n);
  VP_PRE(REQ_mzd_read_bits(M, in_x, in_y, in_n));
  word r = mzd_read_bits(M, in_x, in_y, in_n);
  VP_CANARY();
  VP_POST(ENS1_mzd_read_bits(M, in_x, in_y, in_n, r));
  VP_POST(ENS2_mzd_read_bits(M, in_x, in_y, in_n, r));
}
#endif

#ifdef H_XOR_BITS
void harness(void) {
  MATRIX();
  GHOSTS();
  VP_IN(int, in_x);
  VP_IN(int, in_y);
  VP_IN(int, in_n);
  VP_IN(word, in_values);
  VP_PRE(REQ_mzd_xor_bits(M, in_x, in_y, in_n, in_values));
  VP_SNAPSHOT();
  mzd_xor_bits(M, in_x, in_y, in_n, in_values);
  VP_CANARY();
  VP_POST(ENS1_mzd_xor_bits(M, in_x, in_y, in_n, in_values));
  VP_POST(ENS2_mzd_xor_bits(M, in_x, in_y, in_n, in_values));
}
#endif

#ifdef H_CLEAR_BITS
void harness(void) {
  MATRIX();
  GHOSTS();
  VP_IN(int, in_x);
  VP_IN(int, in_y);
  VP_IN(int, in_n);
  VP_PRE(REQ_mzd_clear_bits(M, in_x, in_y, in_n));
  VP_SNAPSHOT();
  mzd_clear_bits(M, in_x, in_y, in_n);
  VP_CANARY();
  VP_POST(ENS1_mzd_clear_bits(M, in_x, in_y, in_n));
  VP_POST(ENS2_mzd_clear_bits(M, in_x, in_y, in_n));
}
#endif
