/* C20 -- allocation failure.  In these harnesses every malloc/calloc/realloc (and posix_memalign through
 * CBMC's model) may return NULL non-deterministically (cbmc default --malloc-may-fail --malloc-fail-null).
 * Obligation per allocation wrapper / allocating routine: either it does not return (m4ri_die -> abort)
 * or it returns valid objects; all pointer checks are on, so any use of a NULL result is a failed property. */
#include <m4ri/mzd.c>
#include <m4ri/mzp.h>
#include <m4ri/djb.h>
#include <m4ri/ple_russian.h>
#include "vp.h"

#ifdef H_MM_MALLOC
void harness(void) {
  VP_IN(size_t, in_size);
  VP_ASSUME(in_size <= ((size_t)1 << 40));
  void *p = m4ri_mm_malloc(in_size);
  VP_ASSERT(in_size == 0 || (p != NULL && __CPROVER_rw_ok(p, in_size)), "m4ri_mm_malloc returns usable memory or does not return");
  VP_CANARY();
}
#endif
#ifdef H_MM_MALLOC_ALIGNED
void harness(void) {
  VP_IN(size_t, in_size);
  VP_ASSUME(in_size <= ((size_t)1 << 40));
  void *p = m4ri_mm_malloc_aligned(in_size, 64);
  VP_ASSERT(in_size == 0 || (p != NULL && __CPROVER_rw_ok(p, in_size)), "m4ri_mm_malloc_aligned returns usable memory or does not return");
  VP_CANARY();
}
#endif
#ifdef H_MM_CALLOC
void harness(void) {
  VP_IN(size_t, in_count);
  VP_IN(size_t, in_size);
  VP_IN(size_t, in_at);
  VP_ASSUME(in_count <= 64 && in_size <= 64 && in_at < in_count * in_size);
  unsigned char *p = m4ri_mm_calloc(in_count, in_size);
  VP_ASSERT(p != NULL && __CPROVER_rw_ok(p, in_count * in_size) && p[in_at] == 0, "m4ri_mm_calloc returns zeroed memory or does not return");
  VP_CANARY();
}
#endif
#ifdef H_MMC_MALLOC
void harness(void) {
  VP_IN(size_t, in_size);
  VP_ASSUME(in_size >= 1 && in_size <= ((size_t)1 << 40));
  void *p = m4ri_mmc_malloc(in_size);
  VP_ASSERT(p != NULL && __CPROVER_rw_ok(p, in_size), "m4ri_mmc_malloc");
  VP_CANARY();
}
#endif
#ifdef H_MMC_CALLOC
void harness(void) {
  VP_IN(size_t, in_count);
  VP_ASSUME(in_count >= 1 && in_count <= 64);
  unsigned char *p = m4ri_mmc_calloc(in_count, 8);
  VP_ASSERT(p != NULL && __CPROVER_rw_ok(p, in_count * 8), "m4ri_mmc_calloc never memsets NULL");
  VP_CANARY();
}
#endif
#ifdef H_HDR_MALLOC
void harness(void) {
  VP_IN(uint64_t, in_used);
  mzd_cache.used = in_used;   /* full or not: the spill path allocates a new block */
  mzd_t *h       = mzd_t_malloc();
  VP_ASSERT(h != NULL && __CPROVER_rw_ok(h, sizeof(mzd_t)), "mzd_t_malloc");
  VP_CANARY();
}
#endif
#ifdef H_INIT
void harness(void) {
  VP_IN(int, in_r);
  VP_IN(int, in_c);
  VP_IN(uint64_t, in_used);
  in_r = RDIM, in_c = CDIM; /* enumerated per group: a symbolic memset length is intractable */
  in_used = USEDMASK;      /* header block empty / full (spill path); the symbolic mask is H_HDR_MALLOC */
  mzd_cache.used = in_used;
  mzd_t *A       = mzd_init(in_r, in_c);
  VP_ASSERT(A != NULL && (!(in_r && in_c) || __CPROVER_rw_ok(A->data, sizeof(word) * in_r * A->rowstride)), "mzd_init: complete object or no return");
  mzd_t *W = mzd_init_window(A, 0, 0, in_r, in_c);
  VP_ASSERT(W != NULL && W->data == A->data, "mzd_init_window: complete object or no return");
  VP_CANARY();
}
#endif
#ifdef H_MZP
void harness(void) {
  VP_IN(int, in_n);
  VP_ASSUME(in_n >= 1 && in_n <= 8);
  mzp_t *P = mzp_init(in_n);
  VP_ASSERT(P != NULL && P->length == in_n && __CPROVER_rw_ok(P->values, sizeof(rci_t) * in_n), "mzp_init");
  mzp_t *W = mzp_init_window(P, 0, in_n);
  VP_ASSERT(W != NULL && W->values == P->values, "mzp_init_window");
  mzp_t *Q = mzp_copy(NULL, P);
  VP_ASSERT(Q != NULL && __CPROVER_rw_ok(Q->values, sizeof(rci_t) * in_n), "mzp_copy");
  VP_CANARY();
}
#endif
#ifdef H_DJB_INIT
void harness(void) {
  djb_t *z = djb_init(3, 4);
  VP_ASSERT(z != NULL && __CPROVER_rw_ok(z->target, sizeof(rci_t) * z->allocated) && __CPROVER_rw_ok(z->source, sizeof(rci_t) * z->allocated) &&
                __CPROVER_rw_ok(z->srctyp, sizeof(srctyp_t) * z->allocated),
            "djb_init: complete object or no return");
  VP_CANARY();
}
#endif
#ifdef H_DJB_PUSH
/* growing the instruction list: the three re-allocations */
void harness(void) {
  djb_t zs;
  djb_t *z = &zs;
  VP_IN(int, in_len);
  VP_ASSUME(in_len >= 0 && in_len <= 4);
  z->nrows = 3, z->ncols = 4;
  z->allocated = 4;
  z->length    = in_len;
  z->target    = malloc(sizeof(rci_t) * 4);
  z->source    = malloc(sizeof(rci_t) * 4);
  z->srctyp    = malloc(sizeof(srctyp_t) * 4);
  VP_ASSUME(z->target && z->source && z->srctyp);
  djb_push_back(z, 1, 2, source_target);
  VP_ASSERT(z->length == in_len + 1 && z->target[in_len] == 1 && z->source[in_len] == 2, "djb_push_back: entry stored or no return");
  VP_CANARY();
}
#endif
#ifdef H_HEAP
/* the binary heap of djb.c (types are private to that file, so the harness includes it) */
#include <m4ri/djb.c>
#include "vp_spec.h"
void harness(void) {
  VP_MAT_DECL(A, 8, 2);
  VP_MAT_SETUP(A, 8, 2, 8, 10, 0, 0, 0);
  heap_t *h = heap_init();
  VP_ASSERT(h != NULL && h->size == 4 && h->count == 0 && __CPROVER_rw_ok(h->data, sizeof(rci_t) * h->size), "heap_init: complete object or no return");
  for (int i = 0; i < 5; ++i) heap_push(h, i, A);   /* the 5th push grows the heap (realloc) */
  VP_ASSERT(h->count == 5 && __CPROVER_rw_ok(h->data, sizeof(rci_t) * h->size), "heap_push: grown or no return");
  for (int i = 0; i < 4; ++i) heap_pop(h, A);       /* shrinking re-allocation */
  VP_ASSERT(h->count == 1 && __CPROVER_rw_ok(h->data, sizeof(rci_t) * h->size), "heap_pop: shrunk or no return");
  VP_CANARY();
}
#endif
#ifdef H_PLE_TABLE
void harness(void) {
  VP_IN(int, in_k);
  VP_ASSUME(in_k >= 1 && in_k <= 3);
  ple_table_t *T = ple_table_init(in_k, 70);
  VP_ASSERT(T != NULL && T->T != NULL && __CPROVER_rw_ok(T->M, sizeof(rci_t) << in_k) && __CPROVER_rw_ok(T->E, sizeof(rci_t) << in_k) && __CPROVER_rw_ok(T->B, sizeof(word) << in_k),
            "ple_table_init: complete object or no return");
  VP_CANARY();
}
#endif
#ifdef H_SCENARIO
/* routines that allocate temporaries / results, small concrete shapes, symbolic contents: with a failing allocator
 * every path either dies in m4ri_die or finishes without touching a NULL pointer (pointer checks are the obligations) */
#include "vp_spec.h"
void harness(void) {
  VP_MAT_DECL(A, 2, 2);
  VP_MAT_SETUP(A, 2, 2, 2, 70, 0, 0, 0);
  VP_IN_ARR(rci_t, in_P, 70);
  mzp_t Ps;
  Ps.values = in_P;
  Ps.length = 70;
  for (int i = 0; i < 70; ++i) VP_ASSUME(in_P[i] >= i && in_P[i] < 70);
#if SCEN == 1
  mzd_t *T = mzd_transpose(NULL, A);
  VP_ASSERT(T != NULL && T->nrows == 70, "transpose result");
#elif SCEN == 2
  mzd_t *C = mzd_copy(NULL, A);
  VP_ASSERT(C != NULL && C->data != NULL, "copy result");
#elif SCEN == 3
  mzd_apply_p_right(A, &Ps);
#elif SCEN == 4
  mzd_t *S = mzd_submatrix(NULL, A, 0, 3, 2, 69);
  VP_ASSERT(S != NULL && S->data != NULL, "submatrix result");
#elif SCEN == 5
  mzd_t *S = mzd_concat(NULL, A, A);
  VP_ASSERT(S != NULL && S->data != NULL, "concat result");
#endif
  VP_CANARY();
}
#endif
