/* layer S: block-recursive TRSM / triangular inversion (triangular.c) under shape contracts; all dimensions and the cutoff
 * symbolic.  The base cases that touch matrix data (order <= 64, decided in layer B) are excluded by the harness's
 * assumption on the order; the recursive calls go through the contract, which admits every order.  -DH_<NAME>. */
#include <m4ri/triangular.c>
#include "tri_shape_contracts.h"
int vg_live;
mzd_t const *vg_tri;

void harness(void) {
  mzd_t t, b; /* arbitrary headers; distinct objects */
  int live0, cutoff;
  __CPROVER_assume(live0 >= 0 && live0 < 1000);
  vg_live = live0;
#if defined(H_UR)
  _mzd_trsm_upper_right(&t, &b, cutoff);
#elif defined(H_UR_TRTRI)
  _mzd_trsm_upper_right_trtri(&t, &b);
#elif defined(H_LR)
  _mzd_trsm_lower_right(&t, &b, cutoff);
#elif defined(H_LL)
  __CPROVER_assume(b.nrows > m4ri_radix);
  _mzd_trsm_lower_left(&t, &b, cutoff);
#elif defined(H_UL)
  __CPROVER_assume(b.nrows > m4ri_radix);
  _mzd_trsm_upper_left(&t, &b, cutoff);
#elif defined(H_TRTRI)
  mzd_trtri_upper(&t);
#elif defined(H_LL_W)
  mzd_trsm_lower_left(&t, &b, cutoff);
#elif defined(H_UL_W)
  mzd_trsm_upper_left(&t, &b, cutoff);
#elif defined(H_UR_W)
  mzd_trsm_upper_right(&t, &b, cutoff);
#elif defined(H_LR_W)
  mzd_trsm_lower_right(&t, &b, cutoff);
#endif
#ifdef VP_CANARY
  __CPROVER_assert(0, "canary: call returns under the pre-condition");
#endif
}
