/* C19 harnesses: word-level kernels and the Gray code.  Select one with -DH_<NAME>. */
#include <m4ri/misc.h>
#include <m4ri/parity.h>
#include <m4ri/graycode.h>
#include "c19_contracts.h"

int vg_b, vg_c;

/* every strictly increasing Q[0..length) inside the window [base, base+64) is base + prefix sums of
 * (gap+1): the harness builds Q from arbitrary gaps d[i] >= 0, which is onto the admissible set and
 * makes the ordering constraints constructive for the SAT solver */
#define VP_MKQ(Q, d, length, base)                                                                 \
  do {                                                                                             \
    int acc_ = (base);                                                                             \
    for (int i_ = 0; i_ < 16; ++i_) {                                                              \
      if (i_ < (length)) {                                                                         \
        VP_ASSUME((d)[i_] < 64);                                                                   \
        acc_ += (d)[i_] + (i_ > 0);                                                                \
      }                                                                                            \
      (Q)[i_] = i_ < (length) ? acc_ : (Q)[i_];                                                    \
    }                                                                                              \
    VP_ASSUME(acc_ - (base) < 64);                                                                 \
  } while (0)

#ifdef H_SWAP
void harness(void) {
  VP_IN(int, in_gb);
  VP_IN(word, in_v);
  vg_b = in_gb;
  VP_PRE(REQ_m4ri_swap_bits(in_v));
  word r = m4ri_swap_bits(in_v);
  VP_CANARY();
  VP_POST(ENS_m4ri_swap_bits(in_v, r));
}
#endif

#ifdef H_PARITY
void harness(void) {
  VP_IN(int, in_gb);
  VP_IN_ARR(word, in_buf, 64);
  vg_b = in_gb;
  VP_PRE(REQ_m4ri_parity64(in_buf));
  word r = m4ri_parity64(in_buf);
  VP_CANARY();
  VP_POST(ENS_m4ri_parity64(in_buf, r));
}
#endif

#ifdef H_LSB
void harness(void) {
  VP_IN(word, in_a);
  VP_IN(word, in_b);
  int r = m4ri_lesser_LSB(in_a, in_b);
  VP_CANARY();
  VP_POST(ENS_m4ri_lesser_LSB(in_a, in_b, r));
}
#endif

#ifdef H_MASKS
/* the three bit-mask macros, all 65 lengths x 64 offsets, every bit position (ghost in_i) */
void harness(void) {
  VP_IN(int, in_n);
  VP_IN(int, in_off);
  VP_IN(int, in_i);
  VP_IN(int, in_m);
  VP_ASSUME(0 <= in_i && in_i < 64);
  VP_ASSUME(0 <= in_n && in_n <= 64);
  /* LEFT_BITMASK(n): the n lowest bits; the library's convention n % 64 == 0 -> all 64 bits */
  word l = __M4RI_LEFT_BITMASK(in_n);
  VP_ASSERT(VP_BITOF(l, in_i) == (in_i < ((in_n % 64 == 0) ? 64 : in_n)), "LEFT_BITMASK(n) selects bits [0,n), n%64==0 -> all");
  /* RIGHT_BITMASK(m): the m highest bits, 1 <= m <= 64 */
  VP_ASSUME(1 <= in_m && in_m <= 64);
  word r = __M4RI_RIGHT_BITMASK(in_m);
  VP_ASSERT(VP_BITOF(r, in_i) == (in_i >= 64 - in_m), "RIGHT_BITMASK(m) selects bits [64-m,64)");
  /* MIDDLE_BITMASK(n, offset): n bits starting at offset, 1 <= n, n + offset <= 64 */
  VP_ASSUME(0 <= in_off && in_off < 64 && in_n >= 1 && in_n <= 64 - in_off);
  word mm = __M4RI_MIDDLE_BITMASK(in_n, in_off);
  VP_ASSERT(VP_BITOF(mm, in_i) == (in_i >= in_off && in_i < in_off + in_n), "MIDDLE_BITMASK(n,off) selects bits [off,off+n)");
}
#endif

#ifdef H_SPREAD
void harness(void) {
  VP_IN(int, in_gb);
  VP_IN(word, in_from);
  VP_IN_ARR(rci_t, in_Q, 16);
  VP_IN(int, in_length);
  VP_IN(int, in_base);
  vg_b = in_gb;
#ifdef LEN
  in_length = LEN;
#endif
  VP_IN_ARR(unsigned char, in_d, 16);
  VP_ASSUME(1 <= in_length && in_length <= 16 && 0 <= in_base && in_base <= (1 << 30));
  VP_MKQ(in_Q, in_d, in_length, in_base);
  VP_PRE(REQ_m4ri_spread_bits(in_from, in_Q, in_length, in_base));
  word r = m4ri_spread_bits(in_from, in_Q, in_length, in_base);
  VP_CANARY();
  VP_POST(ENS_m4ri_spread_bits(in_from, in_Q, in_length, in_base, r));
}
#endif

#ifdef H_SHRINK
void harness(void) {
  VP_IN(int, in_gb);
  VP_IN(word, in_from);
  VP_IN_ARR(rci_t, in_Q, 16);
  VP_IN(int, in_length);
  VP_IN(int, in_base);
  vg_b = in_gb;
#ifdef LEN
  in_length = LEN;
#endif
  VP_IN_ARR(unsigned char, in_d, 16);
  VP_ASSUME(1 <= in_length && in_length <= 16 && 0 <= in_base && in_base <= (1 << 30));
  VP_MKQ(in_Q, in_d, in_length, in_base);
  VP_PRE(REQ_m4ri_shrink_bits(in_from, in_Q, in_length, in_base));
  word r = m4ri_shrink_bits(in_from, in_Q, in_length, in_base);
  VP_CANARY();
  VP_POST(ENS_m4ri_shrink_bits(in_from, in_Q, in_length, in_base, r));
}
#endif

#ifdef H_SPREAD_ABORT
/* length outside 1..16 must end in abort(): the call does not return */
void harness(void) {
  VP_IN(word, in_from);
  VP_IN_ARR(rci_t, in_Q, 16);
  VP_IN(int, in_length);
  VP_IN(int, in_which);
  VP_ASSUME((in_length < 1 || in_length > 16) && in_length > -(1 << 30) && in_length < (1 << 30)); /* VP-ASSUMPTION: |length| < 2^30 (length - 1 must not overflow int) */
  if (in_which)
    m4ri_spread_bits(in_from, in_Q, in_length, 0);
  else
    m4ri_shrink_bits(in_from, in_Q, in_length, 0);
  VP_ASSERT(0, "spread/shrink with length outside 1..16 must not return");
}
#endif

#ifdef H_SPREAD_INV
/* mutual inverse, composed on the real code (loop-free, full domain) */
void harness(void) {
  VP_IN(word, in_x);
  VP_IN_ARR(rci_t, in_Q, 16);
  VP_IN(int, in_length);
  VP_IN(int, in_base);
#ifdef LEN
  in_length = LEN;
#endif
  VP_IN_ARR(unsigned char, in_d, 16);
  VP_ASSUME(1 <= in_length && in_length <= 16 && 0 <= in_base && in_base <= (1 << 30));
  VP_MKQ(in_Q, in_d, in_length, in_base);
  VP_ASSUME(VP_QOK(in_Q, in_length, in_base));
  word lowmask = VP_LMASK(in_length);   /* length <= 16 < 64 */
  word s       = m4ri_spread_bits(in_x & lowmask, in_Q, in_length, in_base);
  word back    = m4ri_shrink_bits(s, in_Q, in_length, in_base);
  VP_ASSERT(back == (in_x & lowmask), "shrink(spread(x)) == x for x < 2^length");
  word posmask = m4ri_spread_bits(lowmask, in_Q, in_length, in_base);
  word t       = m4ri_shrink_bits(in_x, in_Q, in_length, in_base);
  word again   = m4ri_spread_bits(t, in_Q, in_length, in_base);
  VP_ASSERT(again == (in_x & posmask), "spread(shrink(y)) == y restricted to the positions Q");
  VP_ASSERT((t & ~lowmask) == 0, "shrink produces a length-bit value");
}
#endif

#ifdef H_GRAY
/* m4ri_gray_code(.,l) is a Gray code on l bits: injective, in range, neighbours differ in one bit.
 * l in 1..16 and both arguments symbolic; the 16-step loop is fully unwound. */
void harness(void) {
  VP_IN(int, in_l);
  VP_IN(int, in_i);
  VP_IN(int, in_j);
  VP_ASSUME(1 <= in_l && in_l <= 16);
  VP_ASSUME(0 <= in_i && in_i < (1 << in_l) && 0 <= in_j && in_j < (1 << in_l));
  int gi = m4ri_gray_code(in_i, in_l);
  int gj = m4ri_gray_code(in_j, in_l);
  VP_ASSERT(0 <= gi && gi < (1 << in_l), "gray code value in range");
  VP_ASSERT(in_i == in_j || gi != gj, "gray code injective");
  if (in_i + 1 < (1 << in_l)) {
    int gn = m4ri_gray_code(in_i + 1, in_l);
    int d  = gi ^ gn;
    VP_ASSERT(d != 0 && (d & (d - 1)) == 0, "consecutive gray codes differ in exactly one bit");
  }
}
#endif

#ifdef H_CODE
/* the code book for k = K (concrete): built by the real m4ri_build_code.  No input is symbolic, so
 * symbolic execution evaluates the complete table; the spec-side loop below visits every entry
 * (finite domain enumerated completely). */
#ifndef K
#error K
#endif
static int ord[1 << K];
static int inc[1 << K];
static unsigned char seen[1 << K];
void harness(void) {
  m4ri_build_code(ord, inc, K);
  for (int g = 0; g < (1 << K); ++g) {
    VP_ASSERT(0 <= ord[g] && ord[g] < (1 << K), "code book entry is a k-bit value");
    VP_ASSERT(!seen[ord[g] & ((1 << K) - 1)], "code book lists each k-bit value exactly once");
    seen[ord[g] & ((1 << K) - 1)] = 1;
    if (g + 1 < (1 << K)) {
      VP_ASSERT(0 <= inc[g] && inc[g] < K, "increment is a bit index");
      VP_ASSERT((ord[g] ^ ord[g + 1]) == (1 << inc[g]), "consecutive entries differ exactly in bit inc[g]");
    }
  }
}
#endif

#ifdef H_GRAYCF
/* helper contract of m4ri_gray_code (closed form), full domain l<=16 */
void harness(void) {
  VP_IN(int, in_l);
  VP_IN(int, in_i);
  VP_PRE(REQ_m4ri_gray_code(in_i, in_l));
  int r = m4ri_gray_code(in_i, in_l);
  VP_CANARY();
  VP_POST(ENS_m4ri_gray_code(in_i, in_l, r));
}
#endif

#ifdef H_CODELC
/* m4ri_build_code under its contract, loops closed by inserted loop invariants (loops/graycode.json),
 * m4ri_gray_code replaced by its helper contract.  l symbolic unless -DK. */
void harness(void) {
  VP_IN(int, in_l);
  VP_IN(int, in_g);
  VP_IN(int, in_h);
#ifdef K
  in_l = K;
#endif
  vg_b = in_g;
  vg_c = in_h;
#ifdef VP_NATIVE
  VP_ASSUME(1 <= in_l && in_l <= 16);
  int *ord = malloc(sizeof(int) << in_l), *inc = malloc(sizeof(int) << in_l);
#else
  /* typed arrays (an is_fresh byte object of 4*2^l bytes makes every int access a byte-extract over the whole object) */
  int ord[1 << K];
  int inc[1 << K];
#endif
  VP_PRE(REQ_m4ri_build_code(ord, inc, in_l));
  m4ri_build_code(ord, inc, in_l);
  VP_CANARY();
  VP_POST(ENS1_m4ri_build_code(ord, inc, in_l));
  VP_POST(ENS2_m4ri_build_code(ord, inc, in_l));
  VP_POST(ENS3_m4ri_build_code(ord, inc, in_l));
}
#endif
