/* C18 -- file I/O against assumed contracts of stdio and libpng (stubs/stdio_stub.c, stubs/png_stub.c).
 * The real io.c is linked unmodified. */
#include <m4ri/m4ri.h>
#include <m4ri/io.h>
#include "mzd_contracts.h"

int vg_r, vg_w, vg_b, vh_r, vh_w, vk_r, vk_w, vg_i, vg_j;

extern struct vp_stdio_model {
  int fopen_fails;
  int header_items;
  int hm, hn;
  long hp, hnz;
  int ntok;
  long tok[8];
  int cursor, calls;
  int open_streams;
  int fread_short;
} vp_io;
#define VP_PNG_MAXROWS 4
#define VP_PNG_MAXBYTES 40
extern struct vp_png_model {
  unsigned width, height, bit_depth, channels, color_type, interlace, compression;
  int packswap, invert;
  int cursor;
  int create_fails;
  int sig_mismatch;
  unsigned char rows[VP_PNG_MAXROWS][VP_PNG_MAXBYTES];
} vp_png;

#ifdef H_FROM_STR
/* the string constructor builds exactly the denoted matrix and reads exactly m*n characters */
void harness(void) {
  VP_IN_ARR(char, in_str, M_ *N_);   /* exactly m*n characters, no terminator: reading one more is out of bounds */
  VP_IN(int, in_gi);
  VP_IN(int, in_gj);
  VP_ASSUME(in_gi >= 0 && in_gi < M_ && in_gj >= 0 && in_gj < N_);
  mzd_t *A = mzd_from_str(M_, N_, in_str);
  VP_CANARY();
  VP_ASSERT(A != NULL && A->nrows == M_ && A->ncols == N_, "from_str: dimensions");
  VP_ASSERT(VP_BIT(A, in_gi, in_gj) == (in_str[in_gi * N_ + in_gj] == '1'), "from_str: entry (i,j) is 1 exactly when the character is '1'");
  VP_ASSERT(VP_ROW_CLEAN(A, in_gi), "from_str: zero padding");
}
#endif

#ifdef H_FROM_JCF
/* JCF reader on an arbitrary token stream: header (m n p nonzero) with HM x HN as dimensions (enumerated), p and the
 * number of parsed header items arbitrary, then up to NTOK arbitrary long values.  Obligations: no access outside the
 * matrix (pointer checks), rejected files return NULL or die, accepted well-formed files denote the result. */
void harness(void) {
  VP_IN(int, in_items);
  VP_IN(long, in_p);
  VP_IN(long, in_nz);
  VP_IN(int, in_ntok);
  VP_IN_ARR(long, in_tok, 8);
  VP_IN(int, in_fail);
  VP_IN(int, in_gi);
  VP_IN(int, in_gj);
  VP_ASSUME(in_items >= -1 && in_items <= 4 && in_ntok >= 0 && in_ntok <= NTOK);
  vp_io.fopen_fails = in_fail != 0, vp_io.header_items = in_items, vp_io.hm = HM, vp_io.hn = HN, /* dimensions enumerated */ vp_io.hp = in_p, vp_io.hnz = in_nz, vp_io.ntok = in_ntok;
  for (int k = 0; k < 8; ++k) {
    VP_ASSUME(in_tok[k] > -1000 && in_tok[k] < 1000); /* VP-ASSUMPTION: JCF index tokens of magnitude < 1000 (larger ones take the same comparison branch) */
    vp_io.tok[k] = in_tok[k];
  }
  mzd_t *A = mzd_from_jcf("file.jcf", 0);
  VP_CANARY();
  VP_ASSERT(vp_io.open_streams == 0, "from_jcf: the stream is closed on every path");
  if (in_fail || in_items != 4 || in_p != 2) VP_ASSERT(A == NULL, "from_jcf: unopenable file, bad header or wrong modulus is rejected with NULL");
  if (A != NULL) {
    VP_ASSERT(A->nrows == HM && A->ncols == HN, "from_jcf: dimensions from the header");
    /* denotation: a negative token starts the next row and gives column -t-1, a positive token t gives column t-1 */
    VP_ASSUME(in_gi >= 0 && in_gi < HM && in_gj >= 0 && in_gj < HN);
    int row = -1, expect = 0;
    for (int k = 0; k < NTOK; ++k)
      if (k < in_ntok) {
        long t = in_tok[k];
        if (t < 0) row++, t = -t;
        if (row == in_gi && t - 1 == in_gj) expect = 1;
      }
    VP_ASSERT(VP_BIT(A, in_gi, in_gj) == expect, "from_jcf: the result is exactly the matrix the text denotes");
  }
}
#endif

#ifdef H_FROM_PNG
/* PNG reader on an arbitrary header: dimensions HM x HN enumerated; bit depth, colour type, channels, interlace arbitrary.
 * Obligation: the row buffer the reader allocated is large enough for what libpng stores (pointer checks in the stub),
 * unsupported files are rejected with NULL, accepted ones yield an HM x HN matrix. */
void harness(void) {
  VP_IN(unsigned, in_depth);
  VP_IN(unsigned, in_channels);
  VP_IN(unsigned, in_color);
  VP_IN(unsigned, in_interlace);
  VP_IN(int, in_fail);
  VP_IN(int, in_cfail);
  VP_ASSUME((in_depth == 1 || in_depth == 2 || in_depth == 4 || in_depth == 8 || in_depth == 16) && in_color <= 6 && in_interlace <= 1);
  /* one consistent IHDR: the channel count is a function of the colour type (grey 1, RGB 3, palette 1, grey+alpha 2, RGBA 4) */
  VP_ASSUME(in_channels == (in_color == 2 ? 3u : (in_color == 4 ? 2u : (in_color == 6 ? 4u : 1u))));
#ifdef PNG_DEPTH /* header fields enumerated per group (measured: any symbolic branch over the early-exit paths exhausts memory in the SAT encoding) */
  in_depth = PNG_DEPTH, in_color = PNG_COLOR, in_interlace = PNG_INTERLACE, in_fail = PNG_FOPEN_FAILS, in_cfail = PNG_CREATE_FAILS;
  in_channels = (in_color == 2 ? 3u : (in_color == 4 ? 2u : (in_color == 6 ? 4u : 1u)));
  vp_png.sig_mismatch = PNG_SIGBAD, vp_io.fread_short = PNG_FREAD_SHORT;
#endif
  vp_io.fopen_fails = in_fail != 0;
  vp_png.create_fails = in_cfail != 0;
  vp_png.width = HN, vp_png.height = HM, vp_png.bit_depth = in_depth, vp_png.channels = in_channels, vp_png.color_type = in_color, vp_png.interlace = in_interlace;
  mzd_t *A = mzd_from_png("file.png", 0);
  VP_CANARY();
  VP_ASSERT(vp_io.open_streams == 0, "from_png: the stream is closed on every path");
  if (in_depth != 1 || in_interlace != 0 || (in_color != 0 && in_color != 3) || in_fail || in_cfail || vp_png.sig_mismatch || vp_io.fread_short)
    VP_ASSERT(A == NULL, "from_png: unopenable / non-PNG / unsupported bit depth, colour type or interlacing is rejected with NULL");
  if (A != NULL) VP_ASSERT(A->nrows == HM && A->ncols == HN, "from_png: dimensions");
}
#endif

#ifdef H_PNG_ROUNDTRIP
/* writing any HM x HN matrix as a 1-bit PNG and reading it back yields an equal matrix (modulo libpng being the identity on row bytes) */
void harness(void) {
  VP_MAT_DECL(A, PR, PRS);
  VP_MAT_SETUP(A, PR, PRS, HM, HN, R0, W0, WIN);
  VP_IN(int, in_gi);
  VP_IN(int, in_gj);
  VP_ASSUME(in_gi >= 0 && in_gi < HM && in_gj >= 0 && in_gj < HN);
  int rc = mzd_to_png(A, "file.png", 9, "comment", 0);
  VP_ASSERT(rc == 0, "to_png succeeds");
  mzd_t *B = mzd_from_png("file.png", 0);
  VP_CANARY();
  VP_ASSERT(B != NULL && B->nrows == HM && B->ncols == HN, "round trip: dimensions");
  VP_ASSERT(VP_BIT(B, in_gi, in_gj) == VP_BIT(A, in_gi, in_gj), "round trip: every entry equal");
  VP_ASSERT(VP_ROW_CLEAN(B, in_gi), "round trip: zero padding");
  VP_ASSERT(vp_io.open_streams == 0, "streams closed");
}
#endif
