/* C14 -- allocation history.  Each operation of the two caches (block cache in mmc.c, header cache in
 * mzd.c) is verified from an ARBITRARY state satisfying the representation invariant, so the result
 * holds after every history by induction; all loops have constant bounds (16 slots, 16 blocks, 64 bits).
 * The harness includes the real mzd.c (to reach its file-static cache) and links the real mmc.c. */
#include <m4ri/mzd.c>
#include "vp.h"

#if __M4RI_ENABLE_MMC
extern mmb_t m4ri_mmc_cache[__M4RI_MMC_NBLOCKS];
#endif
#define NB __M4RI_MMC_NBLOCKS
#define MAXSZ 4096

/* ---------------- block cache: arbitrary invariant-satisfying state ---------------- */
/* INV_MMC: every slot is empty (size 0) or holds its own live heap block of exactly `size` bytes. */
static void mmc_any_state(void) {
#if __M4RI_ENABLE_MMC
  for (int i = 0; i < NB; ++i) {
    VP_IN(size_t, in_sz);
    VP_ASSUME(in_sz <= MAXSZ);
    m4ri_mmc_cache[i].size = in_sz;
    if (in_sz) {
      m4ri_mmc_cache[i].data = malloc(in_sz);
      VP_ASSUME(m4ri_mmc_cache[i].data != NULL);
    } else {
      VP_IN(int, in_null);
      m4ri_mmc_cache[i].data = NULL;
    }
  }
#endif
}
/* the eviction cursor (a static local of m4ri_mmc_free) is advanced to an arbitrary position with the real
 * code: k evictions on a full cache */
static void mmc_any_cursor(void) {
#if __M4RI_ENABLE_MMC
  VP_IN(int, in_k);
  VP_ASSUME(in_k >= 0 && in_k < NB);
  for (int i = 0; i < NB; ++i) {
    m4ri_mmc_cache[i].size = 8;
    m4ri_mmc_cache[i].data = malloc(8);
    VP_ASSUME(m4ri_mmc_cache[i].data != NULL);
  }
  for (int t = 0; t < NB; ++t)
    if (t < in_k) {
      void *p = malloc(8);
      VP_ASSUME(p != NULL);
      m4ri_mmc_free(p, 8);
    }
  for (int i = 0; i < NB; ++i) free(m4ri_mmc_cache[i].data);
#endif
}
static int mmc_inv_slot(int i) {
#if !__M4RI_ENABLE_MMC
  return 1;
#else
  return m4ri_mmc_cache[i].size == 0 ||
         (__CPROVER_rw_ok(m4ri_mmc_cache[i].data, m4ri_mmc_cache[i].size) && __CPROVER_OBJECT_SIZE(m4ri_mmc_cache[i].data) == m4ri_mmc_cache[i].size &&
          __CPROVER_POINTER_OFFSET(m4ri_mmc_cache[i].data) == 0);
#endif
}
#define GHOST_SLOTS()                                                                              \
  VP_IN(int, in_g);                                                                                \
  VP_IN(int, in_g2);                                                                               \
  VP_ASSUME(0 <= in_g && in_g < NB && 0 <= in_g2 && in_g2 < NB && in_g != in_g2)
#define ASSERT_MMC_INV()                                                                           \
  VP_ASSERT(mmc_inv_slot(in_g), "INV_MMC: slot is empty or holds a live block of exactly its size");                                       \
  VP_ASSERT(m4ri_mmc_cache[in_g].size == 0 || m4ri_mmc_cache[in_g2].size == 0 || !__CPROVER_same_object(m4ri_mmc_cache[in_g].data, m4ri_mmc_cache[in_g2].data), \
            "INV_MMC: no block is cached twice")

#ifdef H_MMC_MALLOC
void harness(void) {
  mmc_any_cursor();
  mmc_any_state();
  GHOST_SLOTS();
  VP_IN(size_t, in_size);
  VP_ASSUME(in_size >= 1 && in_size <= ((size_t)1 << 40));
  unsigned char *live = malloc(16);
  VP_ASSUME(live != NULL);
  live[3] = 77;
  unsigned char *p = m4ri_mmc_malloc(in_size);
  VP_ASSERT(p != NULL && __CPROVER_rw_ok(p, in_size), "returned block is usable for the requested size");
  VP_ASSERT(!__CPROVER_same_object(p, live) && live[3] == 77, "returned block is disjoint from a live block, which is untouched");
  ASSERT_MMC_INV();
  VP_ASSERT(m4ri_mmc_cache[in_g].size == 0 || !__CPROVER_same_object(m4ri_mmc_cache[in_g].data, p), "returned block is no longer in the cache");
  VP_CANARY();
}
#endif

#ifdef H_MMC_CALLOC
void harness(void) {
  mmc_any_cursor();
  mmc_any_state();
  VP_IN(size_t, in_count);
  VP_IN(size_t, in_size);
  VP_IN(size_t, in_at);
  VP_ASSUME(in_count >= 1 && in_size >= 1 && in_count <= 64 && in_size <= 64 && in_at < in_count * in_size);
  unsigned char *p = m4ri_mmc_calloc(in_count, in_size);
  VP_ASSERT(p != NULL && __CPROVER_rw_ok(p, in_count * in_size), "calloc: usable");
  VP_ASSERT(p[in_at] == 0, "calloc: every byte zero whatever the recycled block contained");
  VP_CANARY();
}
#endif

#ifdef H_MMC_FREE
void harness(void) {
  mmc_any_cursor();
  mmc_any_state();
  GHOST_SLOTS();
  VP_IN(size_t, in_size);
  VP_ASSUME(in_size >= 1 && in_size <= ((size_t)1 << 40));
  VP_IN(size_t, in_alloc);   /* the block's true allocation may be larger than the size it is returned with?  no: equal */
  unsigned char *p = malloc(in_size);
  VP_ASSUME(p != NULL);
  unsigned char *live = malloc(16);
  VP_ASSUME(live != NULL);
  live[5] = 42;
  m4ri_mmc_free(p, in_size);
  ASSERT_MMC_INV();
  VP_ASSERT(__CPROVER_rw_ok(live, 16) && live[5] == 42, "a live block is neither freed nor written");
  VP_CANARY();
}
#endif

#ifdef H_MMC_FREE_LEAK
/* a block handed to the cache is released exactly once by the time the library is finalised (run with --memory-leak-check):
 * covers the eviction path (cache full) and the plain caching path */
void harness(void) {
  mmc_any_cursor();
  mmc_any_state();
  VP_IN(size_t, in_size);
  VP_ASSUME(in_size >= 1 && in_size <= 4096);
  void *p = malloc(in_size);
  VP_ASSUME(p != NULL);
  m4ri_mmc_free(p, in_size);
  m4ri_mmc_cleanup();
  VP_CANARY();
}
#endif

#ifdef H_MMC_FREE_ZERO
/* zero-area matrices hand (NULL, 0) to the block cache */
void harness(void) {
  mmc_any_cursor();
  mmc_any_state();
  GHOST_SLOTS();
  m4ri_mmc_free(NULL, 0);
  ASSERT_MMC_INV();
  VP_CANARY();
}
#endif

#ifdef H_MMC_CLEANUP
/* after cleanup nothing is cached; with --memory-leak-check: every cached block was released */
void harness(void) {
  mmc_any_cursor();
  mmc_any_state();
  VP_IN(int, in_g);
  VP_ASSUME(0 <= in_g && in_g < NB);
  m4ri_mmc_cleanup();
  VP_ASSERT(m4ri_mmc_cache[in_g].size == 0, "cleanup: no cached block remains");
  VP_CANARY();
}
#endif

#ifdef H_FINI
/* library finalisation after real use: code book built and destroyed, a matrix created and freed: no memory retained */
void harness(void) {
  VP_IN(int, in_r);
  VP_IN(int, in_c);
  VP_ASSUME(in_r >= 0 && in_r <= 3 && in_c >= 0 && in_c <= 130);
  mzd_t *A = mzd_init(in_r, in_c);
  mzd_t *W = NULL;
  if (in_r >= 2 && in_c >= 65) W = mzd_init_window(A, 1, 64, in_r, in_c);
  if (W) mzd_free(W);
  mzd_free(A);
  m4ri_mmc_cleanup();
  VP_ASSERT(mzd_cache.used == 0 && mzd_cache.next == NULL, "header cache empty after all frees");
  VP_CANARY();
}
#endif

/* ---------------- header cache (mzd.c): arbitrary list state ---------------- */
/* INV_HDR: the list from &mzd_cache has 0..15 dynamic blocks, is doubly linked consistently, every dynamic
 * block has at least one used header (it is freed when it becomes empty), current_cache is on the list. */
#define MAXB (__M4RI_MZD_T_CACHE_MAX - 1)
static mzd_t_cache_t *blk[MAXB + 1];
static int nblk;
static void hdr_any_state(void) {
  VP_IN(int, in_n);
  VP_IN(int, in_cur);
  VP_ASSUME(in_n >= 0 && in_n <= MAXB && in_cur >= 0 && in_cur <= in_n);
  nblk   = in_n;
  blk[0] = &mzd_cache;
  VP_IN(uint64_t, in_used0);
  mzd_cache.used = in_used0;
  mzd_cache.prev = NULL;
  mzd_cache.next = NULL;
  for (int k = 1; k <= MAXB; ++k) {
    if (k <= in_n) {
      blk[k] = malloc(sizeof(mzd_t_cache_t));
      VP_ASSUME(blk[k] != NULL);
      VP_IN(uint64_t, in_used);
      VP_ASSUME(in_used != 0);
      blk[k]->used     = in_used;
      blk[k]->prev     = blk[k - 1];
      blk[k]->next     = NULL;
      blk[k - 1]->next = blk[k];
    } else
      blk[k] = NULL;
  }
  current_cache = blk[in_cur];
}
/* walk the list; returns number of dynamic blocks or -1 when malformed */
static int hdr_inv(void) {
  int n               = 0;
  int cur_seen        = (current_cache == &mzd_cache);
  mzd_t_cache_t *c    = &mzd_cache;
  if (c->prev != NULL) return -1;
  for (int k = 0; k <= MAXB + 1; ++k) {
    mzd_t_cache_t *nx = c->next;
    if (nx == NULL) return cur_seen ? n : -1;
    if (!__CPROVER_rw_ok(nx, sizeof(mzd_t_cache_t))) return -1;
    if (nx->prev != c || nx->used == 0) return -1;
    if (nx == current_cache) cur_seen = 1;
    c = nx;
    n++;
    if (n > MAXB) return -1;
  }
  return -1;
}

#ifdef H_HDR_MALLOC
void harness(void) {
  hdr_any_state();
  VP_IN(int, in_gk);
  VP_IN(int, in_ge);
  VP_ASSUME(in_gk >= 0 && in_gk <= nblk && in_ge >= 0 && in_ge < 64);
  int was_used  = (int)((blk[in_gk]->used >> in_ge) & 1);
  mzd_t *ghosth = &blk[in_gk]->mzd[in_ge];
  mzd_t *h      = mzd_t_malloc();
  VP_ASSERT(h != NULL && __CPROVER_rw_ok(h, sizeof(mzd_t)), "header usable");
  VP_ASSERT(hdr_inv() >= 0, "INV_HDR preserved by mzd_t_malloc");
  VP_ASSERT(!was_used || h != ghosth, "a header that is in use is never handed out again");
  VP_ASSERT(!was_used || ((blk[in_gk]->used >> in_ge) & 1), "used marks of live headers are kept");
  VP_CANARY();
}
#endif

#ifdef H_HDR_FREE
void harness(void) {
  hdr_any_state();
  VP_IN(int, in_k);
  VP_IN(int, in_e);
  VP_IN(int, in_gk);
  VP_IN(int, in_ge);
  VP_ASSUME(in_k >= 0 && in_k <= nblk && in_e >= 0 && in_e < 64 && ((blk[in_k]->used >> in_e) & 1));
  VP_ASSUME(in_gk >= 0 && in_gk <= nblk && in_ge >= 0 && in_ge < 64 && (in_gk != in_k || in_ge != in_e));
  int g_used           = (int)((blk[in_gk]->used >> in_ge) & 1);
  int k_becomes_empty  = blk[in_k]->used == ((uint64_t)1 << in_e);
  mzd_t_free(&blk[in_k]->mzd[in_e]);
  VP_ASSERT(hdr_inv() >= 0, "INV_HDR preserved by mzd_t_free");
  if (!(k_becomes_empty && in_k != 0)) VP_ASSERT(((blk[in_k]->used >> in_e) & 1) == 0, "the freed header is marked free");
  if (g_used && !(in_gk == in_k && k_becomes_empty && in_k != 0))
    VP_ASSERT(__CPROVER_rw_ok(&blk[in_gk]->mzd[in_ge], sizeof(mzd_t)) && ((blk[in_gk]->used >> in_ge) & 1), "every other live header stays live and marked");
  VP_CANARY();
}
#endif

#ifdef H_HDR_FREE_HEAP
/* a header that came from plain malloc (all 16 blocks full) is released with free */
void harness(void) {
  hdr_any_state();
  mzd_t *h = m4ri_mm_malloc(sizeof(mzd_t));
  mzd_t_free(h);
  VP_ASSERT(hdr_inv() >= 0, "INV_HDR preserved");
  VP_CANARY();
}
#endif

#ifdef H_INIT
/* mzd_init from an arbitrary state of both caches: zero, well-formed, disjoint from a live matrix */
void harness(void) {
  mmc_any_state(); /* block cache arbitrary (what it holds may be recycled); header cache: see H_HDR_MALLOC for its own induction step */
  VP_IN(int, in_r);
  VP_IN(int, in_c);
  VP_IN(int, in_gi);
  VP_IN(int, in_gw);
  in_r = RMAX, in_c = CMAX; /* dimensions enumerated per group (a symbolic memset length is intractable) */
  word *live = malloc(4 * sizeof(word));
  VP_ASSUME(live != NULL);
  live[1]  = 0x1234;
  mzd_t *A = mzd_init(in_r, in_c);
  VP_ASSERT(A != NULL && A->nrows == in_r && A->ncols == in_c && A->width == (in_c + 63) / 64 && A->rowstride >= A->width && (A->rowstride & 1) == 0 &&
                !(A->flags & mzd_flag_windowed) && A->high_bitmask == VP_LMASK(in_c % 64),
            "mzd_init: header well formed");
  if (in_r && in_c) {
    VP_ASSUME(in_gi >= 0 && in_gi < in_r && in_gw >= 0 && in_gw < A->rowstride);
    VP_ASSERT(__CPROVER_rw_ok(A->data, sizeof(word) * in_r * A->rowstride), "mzd_init: storage covers all rows");
    VP_ASSERT(A->data[(wi_t)in_gi * A->rowstride + in_gw] == 0, "mzd_init: entirely zero whatever the caches held");
    VP_ASSERT(!__CPROVER_same_object(A->data, live), "mzd_init: storage disjoint from live storage");
  } else
    VP_ASSERT(A->data == NULL, "zero-area matrix owns no storage");
  VP_ASSERT(live[1] == 0x1234, "live storage untouched");
  VP_ASSERT(hdr_inv() >= 0, "INV_HDR preserved by mzd_init");
  VP_CANARY();
}
#endif

#ifdef H_WINDOW_FREE
/* a window shares the parent's storage and never frees it */
void harness(void) {
  /* both caches start empty here: their induction steps are H_MMC_* and H_HDR_*; this harness is about window geometry and ownership */
  nblk   = 0;
  blk[0] = &mzd_cache;
  VP_IN(int, in_lowr);
  VP_IN(int, in_highr);
  VP_IN(int, in_lowc);
  VP_IN(int, in_highc);
  mzd_t *A = mzd_init(RMAX, CMAX);
  VP_ASSUME(0 <= in_lowr && in_lowr <= in_highr && in_highr <= RMAX && 0 <= in_lowc && in_lowc <= in_highc && in_highc <= CMAX && in_lowc % 64 == 0);
  A->data[0] = 99;
  mzd_t *W   = mzd_init_window(A, in_lowr, in_lowc, in_highr, in_highc);
  VP_ASSERT(W->nrows == in_highr - in_lowr && W->ncols == in_highc - in_lowc && (W->flags & mzd_flag_windowed) && W->rowstride == A->rowstride &&
                W->data == A->data + (wi_t)in_lowr * A->rowstride + in_lowc / 64,
            "window header describes the requested block of the parent");
  mzd_free(W);
  VP_ASSERT(__CPROVER_rw_ok(A->data, sizeof(word) * RMAX * A->rowstride) && A->data[0] == 99, "freeing a window leaves the parent's storage alive and intact");
  VP_ASSERT(hdr_inv() >= 0, "INV_HDR preserved");
  mzd_free(A);
  VP_ASSERT(hdr_inv() >= 0, "INV_HDR preserved by mzd_free");
  VP_CANARY();
}
#endif
