/* layer S, ghost-index family: mzd_echelonize_pluq without full reduction (echelonform.c) -- the branch that clears the stored L
 * part row by row and sets the pivot cell at column Q[i].  All dimensions and the rank symbolic; loops closed by the invariants of
 * loops/echelonform.json; vg_qi is an arbitrary row index (see contracts/orch_shape_contracts.h). */
#define VP_GHOST_INDEX
#include <m4ri/echelonform.c>
#include "orch_shape_contracts.h"
int vg_live, vg_plive, vg_rank, vg_qi;
long vg_solved, vg_cleared;
mzd_t const *vg_tri;

void harness(void) {
  mzd_t a;
  int live0, plive0, qi;
  long cleared0;
  __CPROVER_assume(live0 >= 0 && live0 < 1000 && plive0 >= 0 && plive0 < 1000 && cleared0 >= 0 && cleared0 < (1L << 40));
  vg_live = live0, vg_plive = plive0, vg_cleared = cleared0;
  vg_qi = qi; /* unconstrained */
  mzd_echelonize_pluq(&a, 0);
#ifdef VP_CANARY
  __CPROVER_assert(0, "canary: call returns under the pre-condition");
#endif
}
