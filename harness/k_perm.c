/* layer K: permutation application (mzp.c).  Shape macros as in k_rowops.c plus PLEN (length of P).
 * All PLEN entries of P are symbolic unless SPARSE is defined: then P is the identity except at the
 * (concrete) positions POS1, POS2, POS3 whose values stay symbolic. */
#include <m4ri/mzd.h>
#include <m4ri/mzp.h>
#include "mzp_contracts.h"

int vg_r, vg_w, vg_b, vh_r, vh_w, vk_r, vk_w, vg_i, vg_j, vg_src;

void harness(void) {
  VP_MAT_DECL(M, PR, PRS);
  VP_MAT_SETUP(M, PR, PRS, NR, NC, R0, W0, WIN);
  VP_IN(int, in_gr);
  VP_IN(int, in_gw);
  VP_IN(int, in_gb);
  VP_IN(int, in_src);
  VP_IN(int, in_r0);
  VP_IN_ARR(rci_t, in_P, PLEN);
#ifdef ROW0 /* start row of the capped variants enumerated */
  in_r0 = ROW0;
#endif
  vg_r   = in_gr;
  vg_w   = in_gw;
  vg_b   = in_gb;
  vg_src = in_src;
  VP_ASSUME(vg_r >= -(R0) && vg_r < (PR) - (R0) && vg_w >= -(W0) && vg_w < (PRS) - (W0));
#ifdef SPARSE
  for (int i = 0; i < PLEN; ++i)
    if (i != POS1 && i != POS2 && i != POS3) in_P[i] = i;
#endif
  mzp_t Ps;
  Ps.values = in_P;
  Ps.length = PLEN;
  mzp_t *P  = &Ps;
#if defined(H_LEFT)
  VP_PRE(REQ_apply_p_left(M, P, vp_src_asc));
  VP_SNAPSHOT();
  mzd_apply_p_left(M, P);
  VP_CANARY();
  VP_POST(ENS1_apply_p_left(M, P));
  VP_POST(ENS2_apply_p_left(M, P));
#elif defined(H_LEFT_TRANS)
  VP_PRE(REQ_apply_p_left(M, P, vp_src_desc));
  VP_SNAPSHOT();
  mzd_apply_p_left_trans(M, P);
  VP_CANARY();
  VP_POST(ENS1_apply_p_left(M, P));
  VP_POST(ENS2_apply_p_left(M, P));
#elif defined(H_RIGHT)
  VP_PRE(REQ_apply_p_right(M, P, 0, vp_src_desc));
  VP_SNAPSHOT();
  mzd_apply_p_right(M, P);
  VP_CANARY();
  VP_POST(ENS1_apply_p_right(M, P, 0));
  VP_POST(ENS2_apply_p_right(M, P, 0));
#elif defined(H_RIGHT_TRANS)
  VP_PRE(REQ_apply_p_right(M, P, 0, vp_src_asc));
  VP_SNAPSHOT();
  mzd_apply_p_right_trans(M, P);
  VP_CANARY();
  VP_POST(ENS1_apply_p_right(M, P, 0));
  VP_POST(ENS2_apply_p_right(M, P, 0));
#elif defined(H_RIGHT_CAPPED)
  VP_PRE(REQ_apply_p_right(M, P, in_r0, vp_src_desc));
  VP_SNAPSHOT();
  mzd_apply_p_right_even_capped(M, P, in_r0, 0);
  VP_CANARY();
  VP_POST(ENS1_apply_p_right(M, P, in_r0));
  VP_POST(ENS2_apply_p_right(M, P, in_r0));
#elif defined(H_RIGHT_TRANS_CAPPED)
  VP_PRE(REQ_apply_p_right(M, P, in_r0, vp_src_asc));
  VP_SNAPSHOT();
  mzd_apply_p_right_trans_even_capped(M, P, in_r0, 0);
  VP_CANARY();
  VP_POST(ENS1_apply_p_right(M, P, in_r0));
  VP_POST(ENS2_apply_p_right(M, P, in_r0));
#elif defined(H_TRI)
  VP_PRE(REQ_apply_p_right_tri(M, P));
  VP_SNAPSHOT();
  mzd_apply_p_right_trans_tri(M, P);
  VP_CANARY();
  VP_POST(ENS1_apply_p_right(M, P, 0));
  VP_POST(ENS2_apply_p_right(M, P, 0));
#elif defined(H_COMPRESS)
  /* CR1, CN1, CR2 enumerated; the call-site fact "rows below r1 + r2 are zero right of n1 + r2" is established here */
  for (int r = CR1 + CR2; r < M->nrows; ++r)
    for (int w = 0; w < M->width; ++w) M->data[(wi_t)r * M->rowstride + w] &= ~(VP_CELLMASK(M, w) & VP_FROMCOL(CN1 + CR2, w));
#ifdef ZROWS /* rows [ZLO, ZHI) of the swap region are zero (cost of the column swaps) */
  for (int r = ZLO; r < ZHI; ++r)
    for (int w = 0; w < M->width; ++w) M->data[(wi_t)r * M->rowstride + w] &= ~VP_CELLMASK(M, w);
#endif
  VP_PRE(REQ__mzd_compress_l(M, CR1, CN1, CR2));
  VP_SNAPSHOT();
  _mzd_compress_l(M, CR1, CN1, CR2);
  VP_CANARY();
  VP_POST(ENS1__mzd_compress_l(M, CR1, CN1, CR2));
  VP_POST(ENS2__mzd_compress_l(M, CR1, CN1, CR2));
#else
#error mode
#endif
}
