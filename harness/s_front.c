/* layer S: front ends of ple.c (PLUQ on top of PLE) and brilliantrussian.c (Four-Russians inversion) under shape contracts;
 * all dimensions symbolic.  -DH_<NAME>; the source file is chosen by the same macro. */
#if defined(H_PLUQ) || defined(H_PLUQ_W) || defined(H_PLE_W)
#include <m4ri/ple.c>
#else
#include <m4ri/brilliantrussian.c>
#endif
#include "orch_shape_contracts.h"
int vg_live, vg_plive;
mzd_t const *vg_tri;
int vg_rank;
long vg_solved;

void harness(void) {
  mzd_t a, b;
  mzp_t p, q;
  int live0, cutoff, k, null_b;
  __CPROVER_assume(live0 >= 0 && live0 < 1000);
  long solved0;
  __CPROVER_assume(solved0 >= 0 && solved0 < (1L << 40));
  vg_solved = solved0;
  vg_live = live0;
#if defined(H_PLUQ)
  _mzd_pluq(&a, &p, &q, cutoff);
#elif defined(H_PLUQ_W)
  mzd_pluq(&a, &p, &q, cutoff);
#elif defined(H_PLE_W)
  mzd_ple(&a, &p, &q, cutoff);
#elif defined(H_INV)
  mzd_inv_m4ri(null_b ? NULL : &b, &a, k);
#endif
#ifdef VP_CANARY
  __CPROVER_assert(0, "canary: call returns under the pre-condition");
#endif
}
