/* layer K: observers of mzd.c (C17).  Operand A: shape macros NR NC PR PRS R0 W0 WIN; operand B (equal/cmp): B_*.  */
#include <m4ri/mzd.h>
#include "mzd_obs_contracts.h"

int vg_r, vg_w, vg_b, vh_r, vh_w, vk_r, vk_w, vg_i, vg_j;

void harness(void) {
  VP_MAT_DECL(A, PR, PRS);
  VP_MAT_SETUP(A, PR, PRS, NR, NC, R0, W0, WIN);
#if defined(H_EQUAL) || defined(H_CMP) || defined(H_CMP_ORDER)
  VP_MAT_DECL(B, B_PR, B_PRS);
  VP_MAT_SETUP(B, B_PR, B_PRS, B_NR, B_NC, B_R0, B_W0, B_WIN);
#endif
#if defined(H_EQUAL)
  VP_PRE(REQ_mzd_equal(A, B));
  int r = mzd_equal(A, B);
  VP_CANARY();
  VP_POST(ENS1_mzd_equal(A, B, r));
#elif defined(H_CMP)
  VP_PRE(REQ_mzd_cmp(A, B));
  int r = mzd_cmp(A, B);
  VP_CANARY();
  VP_POST(ENS1_mzd_cmp(A, B, r));
#elif defined(H_CMP_ORDER)
  /* antisymmetry and transitivity on three matrices of one shape, composed on the real function */
  VP_MAT_DECL(C, B_PR, B_PRS);
  VP_MAT_SETUP(C, B_PR, B_PRS, B_NR, B_NC, B_R0, B_W0, B_WIN);
  int ab = mzd_cmp(A, B), ba = mzd_cmp(B, A), bc = mzd_cmp(B, C), ac = mzd_cmp(A, C);
  VP_ASSERT((ab < 0) == (ba > 0) && (ab == 0) == (ba == 0), "mzd_cmp antisymmetric");
  VP_ASSERT(!(ab <= 0 && bc <= 0) || ac <= 0, "mzd_cmp transitive");
  VP_ASSERT(!(ab == 0 && bc == 0) || ac == 0, "mzd_cmp: equality transitive");
  VP_CANARY();
#elif defined(H_IS_ZERO)
  VP_PRE(REQ_mzd_is_zero(A));
  int r = mzd_is_zero(A);
  VP_CANARY();
  VP_POST(ENS1_mzd_is_zero(A, r));
#elif defined(H_FIRST_ZERO_ROW)
  VP_PRE(REQ_mzd_first_zero_row(A));
  rci_t r = mzd_first_zero_row(A);
  VP_CANARY();
  VP_POST(ENS1_mzd_first_zero_row(A, r));
#elif defined(H_FIND_PIVOT)
  VP_IN(int, in_r0);
  VP_IN(int, in_c0);
#ifdef C0_LO /* start column restricted to a class to keep instances small */
  VP_ASSUME(in_c0 >= C0_LO && in_c0 <= C0_HI);
#endif
#if defined(VP_NATIVE) || defined(VP_ASSERT_MODE)
  rci_t rr = 0, cc = 0, *pr = &rr, *pc = &cc;
#else
  rci_t *pr, *pc;
#endif
  VP_PRE(REQ_mzd_find_pivot(A, in_r0, in_c0, pr, pc));
  int r = mzd_find_pivot(A, in_r0, in_c0, pr, pc);
  VP_CANARY();
  VP_POST(ENS1_mzd_find_pivot(A, in_r0, in_c0, pr, pc, r));
  VP_POST(ENS2_mzd_find_pivot(A, in_r0, in_c0, pr, pc, r));
#elif defined(H_RW_BIT)
  /* reading an entry returns what was last written there */
  VP_IN(int, in_i);
  VP_IN(int, in_j);
  VP_IN(int, in_v);
  VP_ASSUME(VP_ROWOK(A, in_i) && VP_COLOK(A, in_j) && (in_v == 0 || in_v == 1));
  mzd_write_bit(A, in_i, in_j, in_v);
  VP_ASSERT(mzd_read_bit(A, in_i, in_j) == in_v, "read_bit returns what write_bit wrote");
  VP_CANARY();
#else
#error mode
#endif
}
