/* layer K (assert mode), cut-point obligation of mzd_process_rows2..6: the word `bits` the row loop splits into table
 * indices equals the k cells (r, startcol .. startcol+k-1) of the row, for EVERY k in NT..64 (k symbolic) -- the stage
 * contracts in k_prows.c decide the whole routine only up to 24 pivot bits (table size).  loops/brilliantrussian.json inserts
 * VP_PROWS_CUT(r, bits) in front of the first table look-up; with -DVP_CUT_READ it records bits and the row and returns,
 * so no table is touched (the tables are null pointers here).  M: shape macros NR NC PR PRS R0 W0 WIN; CCOL, ROW0 enumerated. */
#include <m4ri/m4ri.h>
#include "prows_contracts.h"

int vg_r, vg_w, vg_b, vh_r, vh_w, vk_r, vk_w, vg_i, vg_j;
unsigned long long vg_cut_bits;
int vg_cut_seen;

void harness(void) {
  VP_MAT_DECL(M, PR, PRS);
  VP_MAT_SETUP(M, PR, PRS, NR, NC, R0, W0, WIN);
  VP_IN(int, in_k);
  VP_ASSUME(in_k >= NT && in_k <= 64 && CCOL + in_k <= NC);
  vg_cut_seen = 0;
  vg_cut_bits = 0;
  VP_SNAPSHOT();
#if NT == 2
  mzd_process_rows2(M, ROW0, NR, CCOL, in_k, 0, 0, 0, 0);
#elif NT == 3
  mzd_process_rows3(M, ROW0, NR, CCOL, in_k, 0, 0, 0, 0, 0, 0);
#elif NT == 4
  mzd_process_rows4(M, ROW0, NR, CCOL, in_k, 0, 0, 0, 0, 0, 0, 0, 0);
#elif NT == 5
  mzd_process_rows5(M, ROW0, NR, CCOL, in_k, 0, 0, 0, 0, 0, 0, 0, 0, 0, 0);
#else
  mzd_process_rows6(M, ROW0, NR, CCOL, in_k, 0, 0, 0, 0, 0, 0, 0, 0, 0, 0, 0, 0);
#endif
  VP_CANARY();
  VP_POST(vg_cut_seen == ROW0 + 1);                                   /* the cut point is reached in the first row of the range */
  VP_POST(vg_cut_bits == vp_old_bits(M, ROW0, CCOL, in_k));           /* all k pivot cells, cell startcol is bit 0 */
}
