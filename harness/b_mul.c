/* layer B: multiplication entry points against the GF(2) product spec (assert mode: the REQ_/ENS_ text is
 * assumed / asserted by the harness).  Operand shapes: A_* (m x l), B_* (l x n), destination D_* (m x n) or DNULL. */
#include <m4ri/m4ri.h>
#include "mul_contracts.h"
#include "vp_codebook.h"

int vg_r, vg_w, vg_b, vh_r, vh_w, vk_r, vk_w, vg_i, vg_j;
#ifndef KPAR
#define KPAR 2
#endif
#ifndef CUTOFF
#define CUTOFF 64
#endif

void harness(void) {
  VP_IN(int, in_gr);
  VP_IN(int, in_gw);
  VP_IN(int, in_hr);
  VP_IN(int, in_hw);
  VP_IN(int, in_kr);
  VP_IN(int, in_kw);
  VP_IN(int, in_gi);
  VP_IN(int, in_gj);
  vg_r = in_gr, vg_w = in_gw, vh_r = in_hr, vh_w = in_hw, vk_r = in_kr, vk_w = in_kw, vg_i = in_gi, vg_j = in_gj;
  vp_build_codes(KMAXBUILD);
  VP_MAT_DECL(A, A_PR, A_PRS);
  VP_MAT_SETUP(A, A_PR, A_PRS, A_NR, A_NC, A_R0, A_W0, A_WIN);
  VP_ASSUME(vh_r >= -(A_R0) && vh_r < (A_PR) - (A_R0) && vh_w >= -(A_W0) && vh_w < (A_PRS) - (A_W0));
#ifdef SQUARE /* both factors are the same object: the squaring route */
  mzd_t *B = A;
  VP_ASSUME(vk_r == vh_r && vk_w == vh_w);
#else
  VP_MAT_DECL(B, B_PR, B_PRS);
  VP_MAT_SETUP(B, B_PR, B_PRS, B_NR, B_NC, B_R0, B_W0, B_WIN);
  VP_ASSUME(vk_r >= -(B_R0) && vk_r < (B_PR) - (B_R0) && vk_w >= -(B_W0) && vk_w < (B_PRS) - (B_W0));
#endif
#ifdef DNULL
  mzd_t *D = NULL;
#else
  VP_MAT_DECL(D, D_PR, D_PRS);
  VP_MAT_SETUP(D, D_PR, D_PRS, D_NR, D_NC, D_R0, D_W0, D_WIN);
  VP_ASSUME(vg_r >= -(D_R0) && vg_r < (D_PR) - (D_R0) && vg_w >= -(D_W0) && vg_w < (D_PRS) - (D_W0));
#endif
  mzd_t *R;
  VP_PRE(REQ_mul(D, A, B));
  VP_SNAPSHOT();
#if defined(H_MUL_NAIVE)
#define ACC 0
  R = mzd_mul_naive(D, A, B);
#elif defined(H_ADDMUL_NAIVE)
#define ACC 1
  R = mzd_addmul_naive(D, A, B);
#elif defined(H_MUL_VA)
#define ACC 0
  R = _mzd_mul_va(D, A, B, 1);
#elif defined(H_ADDMUL_VA)
#define ACC 1
  R = _mzd_mul_va(D, A, B, 0);
#elif defined(H_MUL_M4RM)
#define ACC 0
  R = mzd_mul_m4rm(D, A, B, KPAR);
#elif defined(H_ADDMUL_M4RM)
#define ACC 1
  R = mzd_addmul_m4rm(D, A, B, KPAR);
#elif defined(H_MUL)
#define ACC 0
  R = mzd_mul(D, A, B, CUTOFF);
#elif defined(H_ADDMUL)
#define ACC 1
  R = mzd_addmul(D, A, B, CUTOFF);
#else
#error mode
#endif
  VP_CANARY();
  VP_POST(ENS1_mul(D, A, B, R, ACC));
  VP_POST(ENS2_mul(D, A, B, R));
  VP_POST(ENS3_mul(D, A, B, R));
  VP_POST(ENS4_mul(D, A, B, R));
}
