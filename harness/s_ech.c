/* layer S: echelonform.c -- the PLUQ-based (reduced) echelon form under shape contracts; all dimensions and the rank symbolic.
 * Only the full reduction (full != 0) is decided here: the other branch writes at column Q->values[i], a data-dependent index
 * (permutation entries are opaque in this layer).  -DH_<NAME>. */
#include <m4ri/echelonform.c>
#include "orch_shape_contracts.h"
int vg_live, vg_plive;
mzd_t const *vg_tri;
int vg_rank;
long vg_solved;

void harness(void) {
  mzd_t a;
  int live0, plive0;
  __CPROVER_assume(live0 >= 0 && live0 < 1000 && plive0 >= 0 && plive0 < 1000);
  long solved0;
  __CPROVER_assume(solved0 >= 0 && solved0 < (1L << 40));
  vg_solved = solved0;
  vg_live = live0, vg_plive = plive0;
#if defined(H_ECH_PLUQ)
  mzd_echelonize_pluq(&a, 1);
#endif
#ifdef VP_CANARY
  __CPROVER_assert(0, "canary: call returns under the pre-condition");
#endif
}
