/* layer K (assert mode): mzd_process_rows (NT == 1) and mzd_process_rows2..6.  M: shape macros NR NC PR PRS R0 W0 WIN;
 * NT tables with 2^chunk rows each (contents symbolic, row 0 zero), L_t symbolic maps into the table; K pivot bits from
 * column CCOL; row range [ROW_LO, ROW_HI) enumerated. */
#include <m4ri/m4ri.h>
#include "prows_contracts.h"

int vg_r, vg_w, vg_b, vh_r, vh_w, vk_r, vk_w, vg_i, vg_j;
#define TW (((NC + 63) / 64 + 1) & ~1)
#define CH(t) (NT == 1 ? KBITS : (NT == 2 ? ((t) == 0 ? KBITS / 2 : KBITS - KBITS / 2) : (KBITS / NT + (((t) < NT - 1 && KBITS % NT >= NT - 1 - (t)) ? 1 : 0))))
#define TABLE(t)                                                                                   \
  VP_MAT_DECL(T##t, (1 << CH(t)), TW);                                                             \
  VP_MAT_SETUP(T##t, (1 << CH(t)), TW, (1 << CH(t)), NC, 0, 0, 0);                                 \
  VP_IN_ARR(rci_t, in_L##t, (1 << CH(t)));                                                         \
  for (int w_ = 0; w_ < (NC + 63) / 64; ++w_) VP_W(T##t, 0, w_) = 0;                               \
  VP_CONCTAB(T##t, in_L##t, (1 << CH(t)), t);                                                      \
  tb.T[t] = T##t;                                                                                  \
  tb.L[t] = in_L##t

/* CONCTAB: table contents and maps are concrete (distinct pseudo-random rows, identity maps): large chunks (9 - 11 bits per
 * table, k >= 33) stay within memory; the rows of M stay symbolic */
#ifdef CONCTAB
#define VP_CONCTAB(T, L, n, t)                                                                     \
  for (int i_ = 0; i_ < (n); ++i_) {                                                               \
    L[i_] = i_;                                                                                    \
    for (int w_ = 0; w_ < (NC + 63) / 64; ++w_)                                                    \
      VP_W(T, i_, w_) = i_ == 0 ? 0 : ((((word)i_ * 0x9E3779B97F4A7C15ULL) ^ ((word)(t + 1) << (7 * w_ + 3)) ^ ((word)i_ << 40)) & VP_CELLMASK(T, w_)); \
  }
#else
#define VP_CONCTAB(T, L, n, t) ((void)0)
#endif

void harness(void) {
  VP_MAT_DECL(M, PR, PRS);
  VP_MAT_SETUP(M, PR, PRS, NR, NC, R0, W0, WIN);
  VP_IN(int, in_gr);
  VP_IN(int, in_gw);
  vg_r = in_gr, vg_w = in_gw;
  VP_ASSUME(vg_r >= -(R0) && vg_r < (PR) - (R0) && vg_w >= -(W0) && vg_w < (PRS) - (W0));
  vp_tables_t tb;
  tb.nt = NT;
  TABLE(0);
#if NT >= 2
  TABLE(1);
#endif
#if NT >= 3
  TABLE(2);
#endif
#if NT >= 4
  TABLE(3);
#endif
#if NT >= 5
  TABLE(4);
#endif
#if NT >= 6
  TABLE(5);
#endif
  VP_PRE(REQ_process_rows(M, ROW_LO, ROW_HI, CCOL, KBITS, &tb));
  VP_SNAPSHOT();
#if NT == 1
  mzd_process_rows(M, ROW_LO, ROW_HI, CCOL, KBITS, T0, in_L0);
#elif NT == 2
  mzd_process_rows2(M, ROW_LO, ROW_HI, CCOL, KBITS, T0, in_L0, T1, in_L1);
#elif NT == 3
  mzd_process_rows3(M, ROW_LO, ROW_HI, CCOL, KBITS, T0, in_L0, T1, in_L1, T2, in_L2);
#elif NT == 4
  mzd_process_rows4(M, ROW_LO, ROW_HI, CCOL, KBITS, T0, in_L0, T1, in_L1, T2, in_L2, T3, in_L3);
#elif NT == 5
  mzd_process_rows5(M, ROW_LO, ROW_HI, CCOL, KBITS, T0, in_L0, T1, in_L1, T2, in_L2, T3, in_L3, T4, in_L4);
#else
  mzd_process_rows6(M, ROW_LO, ROW_HI, CCOL, KBITS, T0, in_L0, T1, in_L1, T2, in_L2, T3, in_L3, T4, in_L4, T5, in_L5);
#endif
  VP_CANARY();
  VP_POST(ENS1_process_rows(M, ROW_LO, ROW_HI, CCOL, KBITS, &tb));
  VP_POST(ENS2_process_rows(M, ROW_LO, ROW_HI, CCOL, KBITS, &tb));
}
