/* layer S: Strassen-Winograd orchestration (strassen.c, loop contracts inserted mechanically) under shape
 * contracts; all dimensions and the cutoff symbolic.  Select the function with -DH_<NAME>. */
#include <m4ri/strassen.c>
#include "shape_contracts.h"
int vg_live;

void harness(void) {
  mzd_t c, a, b; /* arbitrary headers; C, A, B distinct objects */
  int live0, cutoff;
  __CPROVER_assume(live0 >= 0 && live0 < 1000);
  vg_live = live0;
#if defined(H_MUL_EVEN)
  _mzd_mul_even(&c, &a, &b, cutoff);
#elif defined(H_ADDMUL_EVEN)
  _mzd_addmul_even(&c, &a, &b, cutoff);
#elif defined(H_SQR_EVEN)
  _mzd_sqr_even(&c, &a, cutoff);
#elif defined(H_ADDSQR_EVEN)
  _mzd_addsqr_even(&c, &a, cutoff);
#elif defined(H_MUL)
  int null_c, same;
  mzd_mul(null_c ? NULL : &c, &a, same ? &a : &b, cutoff);
#elif defined(H_ADDMUL)
  int null_c, same;
  mzd_addmul(null_c ? NULL : &c, &a, same ? &a : &b, cutoff);
#elif defined(H__ADDMUL)
  int same;
  _mzd_addmul(&c, &a, same ? &a : &b, cutoff);
#endif
#ifdef VP_CANARY
  __CPROVER_assert(0, "canary: call returns under the pre-condition");
#endif
}
