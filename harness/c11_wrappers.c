/* C11 -- "calls to the checked public wrappers with incompatible dimensions terminate through the library's
 * error handler before any operand is touched".  Operand headers are arbitrary (dimensions symbolic up to 2^20),
 * their data pointers are DANGLING (NULL): any read or write of operand storage trips a pointer check; the
 * trailing assertion fails if the call returns.  Loop bounds are irrelevant: no loop may be entered. */
#include <m4ri/m4ri.h>
#include "vp.h"

static void any_hdr(mzd_t *M) {
  VP_IN(int, in_r);
  VP_IN(int, in_c);
  VP_IN(unsigned char, in_flags);
  VP_ASSUME(in_r >= 0 && in_c >= 0 && in_r <= (1 << 20) && in_c <= (1 << 20));
  M->nrows        = in_r;
  M->ncols        = in_c;
  M->width        = (M->ncols + 63) / 64;
  M->rowstride    = M->width + (M->width & 1);
  M->high_bitmask = VP_LMASK(M->ncols % 64);
  M->flags        = (uint8_t)((in_flags & 0x4) | ((M->ncols % 64) ? 0x2 : 0));
  M->data         = (word *)0; /* dangling */
}
static void any_perm(mzp_t *P) {
  VP_IN(int, in_len);
  VP_ASSUME(in_len >= 0 && in_len <= (1 << 20));
  P->length = in_len;
  P->values = (rci_t *)0;
}
#define MUST_NOT_RETURN(what) VP_ASSERT(0, what ": must not return on incompatible dimensions")

void harness(void) {
  mzd_t a, b, c;
  mzp_t p, q;
  any_hdr(&a);
  any_hdr(&b);
  any_hdr(&c);
  any_perm(&p);
  any_perm(&q);
  VP_IN(int, in_k);
  VP_IN(int, in_cutoff);
  VP_ASSUME(in_k >= 0 && in_k <= 16);
#if defined(H_ADD)
  VP_ASSUME(a.nrows != b.nrows || a.ncols != b.ncols || c.nrows != a.nrows || c.ncols != a.ncols);
  VP_CANARY();
  mzd_add(&c, &a, &b);
  MUST_NOT_RETURN("mzd_add");
#elif defined(H_COPY)
  VP_ASSUME(c.nrows < a.nrows || c.ncols < a.ncols);
  VP_CANARY();
  mzd_copy(&c, &a);
  MUST_NOT_RETURN("mzd_copy");
#elif defined(H_TRANSPOSE)
  VP_ASSUME(c.nrows != a.ncols || c.ncols != a.nrows);
  VP_CANARY();
  mzd_transpose(&c, &a);
  MUST_NOT_RETURN("mzd_transpose");
#elif defined(H_MUL_NAIVE)
  VP_ASSUME(c.nrows != a.nrows || c.ncols != b.ncols);
  VP_CANARY();
  mzd_mul_naive(&c, &a, &b);
  MUST_NOT_RETURN("mzd_mul_naive");
#elif defined(H_ADDMUL_NAIVE)
  VP_ASSUME(c.nrows != a.nrows || c.ncols != b.ncols);
  VP_CANARY();
  mzd_addmul_naive(&c, &a, &b);
  MUST_NOT_RETURN("mzd_addmul_naive");
#elif defined(H_CONCAT)
  VP_ASSUME(a.nrows != b.nrows || c.nrows != a.nrows || c.ncols != a.ncols + b.ncols);
  VP_CANARY();
  mzd_concat(&c, &a, &b);
  MUST_NOT_RETURN("mzd_concat");
#elif defined(H_STACK)
  VP_ASSUME(a.ncols != b.ncols || c.ncols != a.ncols || c.nrows != a.nrows + b.nrows);
  VP_CANARY();
  mzd_stack(&c, &a, &b);
  MUST_NOT_RETURN("mzd_stack");
#elif defined(H_SUBMATRIX)
  VP_IN(int, in_lr);
  VP_IN(int, in_lc);
  VP_IN(int, in_hr);
  VP_IN(int, in_hc);
  VP_ASSUME(0 <= in_lr && in_lr <= in_hr && in_hr <= a.nrows && 0 <= in_lc && in_lc <= in_hc && in_hc <= a.ncols);
  VP_ASSUME(c.nrows < in_hr - in_lr || c.ncols < in_hc - in_lc);
  VP_CANARY();
  mzd_submatrix(&c, &a, in_lr, in_lc, in_hr, in_hc);
  MUST_NOT_RETURN("mzd_submatrix");
#elif defined(H_MUL_M4RM)
  VP_ASSUME(a.ncols != b.nrows || c.nrows != a.nrows || c.ncols != b.ncols);
  VP_CANARY();
  mzd_mul_m4rm(&c, &a, &b, in_k);
  MUST_NOT_RETURN("mzd_mul_m4rm");
#elif defined(H_ADDMUL_M4RM)
  VP_ASSUME(a.ncols != b.nrows || c.nrows != a.nrows || c.ncols != b.ncols);
  VP_ASSUME(c.nrows > 0 && c.ncols > 0);   /* positive dimensions: the documented domain (an empty C returns early, touching nothing) */
  VP_CANARY();
  mzd_addmul_m4rm(&c, &a, &b, in_k);
  MUST_NOT_RETURN("mzd_addmul_m4rm");
#elif defined(H_MUL)
  VP_ASSUME(a.ncols != b.nrows || c.nrows != a.nrows || c.ncols != b.ncols || in_cutoff < 0);
  VP_CANARY();
  mzd_mul(&c, &a, &b, in_cutoff);
  MUST_NOT_RETURN("mzd_mul");
#elif defined(H_ADDMUL)
  VP_ASSUME(a.ncols != b.nrows || c.nrows != a.nrows || c.ncols != b.ncols || in_cutoff < 0);
  VP_CANARY();
  mzd_addmul(&c, &a, &b, in_cutoff);
  MUST_NOT_RETURN("mzd_addmul");
#elif defined(H_TRSM_UPPER_RIGHT)
  VP_ASSUME(a.nrows != b.ncols || a.nrows != a.ncols);
  VP_CANARY();
  mzd_trsm_upper_right(&a, &b, in_cutoff);
  MUST_NOT_RETURN("mzd_trsm_upper_right");
#elif defined(H_TRSM_LOWER_RIGHT)
  VP_ASSUME(a.nrows != b.ncols || a.nrows != a.ncols);
  VP_CANARY();
  mzd_trsm_lower_right(&a, &b, in_cutoff);
  MUST_NOT_RETURN("mzd_trsm_lower_right");
#elif defined(H_TRSM_LOWER_LEFT)
  VP_ASSUME(a.ncols != b.nrows || a.nrows != a.ncols);
  VP_CANARY();
  mzd_trsm_lower_left(&a, &b, in_cutoff);
  MUST_NOT_RETURN("mzd_trsm_lower_left");
#elif defined(H_TRSM_UPPER_LEFT)
  VP_ASSUME(a.ncols != b.nrows || a.nrows != a.ncols);
  VP_CANARY();
  mzd_trsm_upper_left(&a, &b, in_cutoff);
  MUST_NOT_RETURN("mzd_trsm_upper_left");
#elif defined(H_PLE)
  VP_ASSUME(p.length != a.nrows || q.length != a.ncols);
  VP_CANARY();
  mzd_ple(&a, &p, &q, in_cutoff);
  MUST_NOT_RETURN("mzd_ple");
#elif defined(H_PLUQ)
  VP_ASSUME(p.length != a.nrows || q.length != a.ncols);
  VP_CANARY();
  mzd_pluq(&a, &p, &q, in_cutoff);
  MUST_NOT_RETURN("mzd_pluq");
#elif defined(H_SOLVE_LEFT)
  VP_ASSUME(a.ncols > b.nrows || b.nrows != (a.nrows > a.ncols ? a.nrows : a.ncols));
  VP_CANARY();
  mzd_solve_left(&a, &b, in_cutoff, 1);
  MUST_NOT_RETURN("mzd_solve_left");
#elif defined(H_PLUQ_SOLVE_LEFT)
  VP_IN(int, in_rank);
  VP_ASSUME(a.ncols > b.nrows || p.length != a.nrows || q.length != a.ncols);
  VP_CANARY();
  mzd_pluq_solve_left(&a, in_rank, &p, &q, &b, in_cutoff, 1);
  MUST_NOT_RETURN("mzd_pluq_solve_left");
#else
#error mode
#endif
}
