/* layer K: addition and data movement (C08).  Operands:
 *   D  destination (macros D_NR D_NC D_PR D_PRS D_R0 D_W0 D_WIN) -- absent when DNULL is defined (result allocated by the call)
 *   A  first source (A_*), B second source (B_*) where the routine has one.
 * ALIAS (add only): 0 distinct, 1 D==A, 2 D==B, 3 A==B, 4 D==A==B. */
#include <m4ri/mzd.h>
#include "mzd_move_contracts.h"

int vg_r, vg_w, vg_b, vh_r, vh_w, vk_r, vk_w, vg_i, vg_j;
#ifndef ALIAS
#define ALIAS 0
#endif

#define GHOST_BLOCK(pfx, r, w)                                                                     \
  VP_ASSUME(r >= -(pfx##_R0) && r < (pfx##_PR) - (pfx##_R0) && w >= -(pfx##_W0) && w < (pfx##_PRS) - (pfx##_W0))

#ifdef VP_NATIVE
#define RESULT_REGISTER(R)                                                                         \
  do {                                                                                             \
    if ((R) && (R)->data) vp_register(R, (R)->data, sizeof(word) * (size_t)(R)->nrows * (R)->rowstride);                                     \
  } while (0)
#else
#define RESULT_REGISTER(R) ((void)0)
#endif

void harness(void) {
  VP_IN(int, in_gr);
  VP_IN(int, in_gw);
  VP_IN(int, in_gb);
  VP_IN(int, in_hr);
  VP_IN(int, in_hw);
  VP_IN(int, in_kr);
  VP_IN(int, in_kw);
  VP_IN(int, in_gi);
  VP_IN(int, in_gj);
  vg_r = in_gr, vg_w = in_gw, vg_b = in_gb, vh_r = in_hr, vh_w = in_hw, vk_r = in_kr, vk_w = in_kw, vg_i = in_gi, vg_j = in_gj;
  VP_MAT_DECL(A, A_PR, A_PRS);
  VP_MAT_SETUP(A, A_PR, A_PRS, A_NR, A_NC, A_R0, A_W0, A_WIN);
  GHOST_BLOCK(A, vh_r, vh_w);
#ifdef B_NR
#if ALIAS == 3 || ALIAS == 4
  mzd_t *B = A;
#else
  VP_MAT_DECL(B, B_PR, B_PRS);
  VP_MAT_SETUP(B, B_PR, B_PRS, B_NR, B_NC, B_R0, B_W0, B_WIN);
#endif
  VP_ASSUME(vk_r >= 0 && vk_r < B_NR && vk_w >= 0 && vk_w < (B_NC + 63) / 64);
#endif
#if defined(DNULL) || defined(H_SET_UI)
  mzd_t *D = NULL;
#elif ALIAS == 1 || ALIAS == 4
  mzd_t *D = A;
  GHOST_BLOCK(A, vg_r, vg_w);
#elif ALIAS == 2
  mzd_t *D = B;
  GHOST_BLOCK(B, vg_r, vg_w);
#else
  VP_MAT_DECL(D, D_PR, D_PRS);
  VP_MAT_SETUP(D, D_PR, D_PRS, D_NR, D_NC, D_R0, D_W0, D_WIN);
  GHOST_BLOCK(D, vg_r, vg_w);
#endif
  mzd_t *R;
#if defined(H_ADD)
  VP_PRE(REQ_mzd_add(D, A, B));
  VP_SNAPSHOT();
  R = mzd_add(D, A, B);
  RESULT_REGISTER(R);
  VP_CANARY();
  VP_POST(ENS1_mzd_add(D, A, B, R));
  VP_POST(ENS2_mzd_add(D, A, B, R));
  VP_POST(ENS3_mzd_add(D, A, B, R));
  VP_POST(ENS4_mzd_add(D, A, B, R));
#elif defined(H__ADD)
  VP_PRE(D != NULL && REQ_mzd_add(D, A, B));
  VP_SNAPSHOT();
  R = _mzd_add(D, A, B);
  VP_CANARY();
  VP_POST(ENS1_mzd_add(D, A, B, R));
  VP_POST(ENS2_mzd_add(D, A, B, R));
  VP_POST(ENS4_mzd_add(D, A, B, R));
#elif defined(H_COPY)
  VP_PRE(REQ_mzd_copy(D, A));
  VP_SNAPSHOT();
  R = mzd_copy(D, A);
  RESULT_REGISTER(R);
  VP_CANARY();
  VP_POST(ENS1_mzd_copy(D, A, R));
  VP_POST(ENS2_mzd_copy(D, A, R));
  VP_POST(ENS3_mzd_copy(D, A, R));
  VP_POST(ENS4_mzd_copy(D, A, R));
#elif defined(H_SET_UI)
  VP_IN(unsigned, in_value);
  GHOST_BLOCK(A, vg_r, vg_w);
  VP_PRE(REQ_mzd_set_ui(A, in_value));
  VP_SNAPSHOT();
  mzd_set_ui(A, in_value);
  VP_CANARY();
  VP_POST(ENS1_mzd_set_ui(A, in_value));
  VP_POST(ENS2_mzd_set_ui(A, in_value));
#elif defined(H_SUBMATRIX)
  /* window position concrete (LOWR LOWC), size = destination shape */
  VP_PRE(REQ_mzd_submatrix(D, A, LOWR, LOWC, LOWR + SUB_NR, LOWC + SUB_NC));
  VP_SNAPSHOT();
  R = mzd_submatrix(D, A, LOWR, LOWC, LOWR + SUB_NR, LOWC + SUB_NC);
  RESULT_REGISTER(R);
  VP_CANARY();
  VP_POST(ENS1_mzd_submatrix(D, A, LOWR, LOWC, LOWR + SUB_NR, LOWC + SUB_NC, R));
  VP_POST(ENS2_mzd_submatrix(D, A, LOWR, LOWC, LOWR + SUB_NR, LOWC + SUB_NC, R));
  VP_POST(ENS3_mzd_submatrix(D, A, LOWR, LOWC, LOWR + SUB_NR, LOWC + SUB_NC, R));
  VP_POST(ENS4_mzd_submatrix(D, A, LOWR, LOWC, LOWR + SUB_NR, LOWC + SUB_NC, R));
#elif defined(H_CONCAT)
  VP_PRE(REQ_mzd_concat(D, A, B));
  VP_SNAPSHOT();
  R = mzd_concat(D, A, B);
  RESULT_REGISTER(R);
  VP_CANARY();
  VP_POST(ENS1_mzd_concat(D, A, B, R));
  VP_POST(ENS2_mzd_concat(D, A, B, R));
  VP_POST(ENS3_mzd_concat(D, A, B, R));
  VP_POST(ENS4_mzd_concat(D, A, B, R));
#elif defined(H_STACK)
  VP_PRE(REQ_mzd_stack(D, A, B));
  VP_SNAPSHOT();
  R = mzd_stack(D, A, B);
  RESULT_REGISTER(R);
  VP_CANARY();
  VP_POST(ENS1_mzd_stack(D, A, B, R));
  VP_POST(ENS2_mzd_stack(D, A, B, R));
  VP_POST(ENS3_mzd_stack(D, A, B, R));
  VP_POST(ENS4_mzd_stack(D, A, B, R));
#elif defined(H_EXTRACT_U)
  VP_PRE(REQ_mzd_extract(D, A));
  VP_SNAPSHOT();
  R = mzd_extract_u(D, A);
  RESULT_REGISTER(R);
  VP_CANARY();
  VP_POST(ENS1_mzd_extract(D, A, R, VP_TRI_U));
  VP_POST(ENS2_mzd_extract(D, A, R));
  VP_POST(ENS3_mzd_extract(D, A, R, VP_TRI_U));
  VP_POST(ENS4_mzd_extract(D, A, R));
#elif defined(H_EXTRACT_L)
  VP_PRE(REQ_mzd_extract(D, A));
  VP_SNAPSHOT();
  R = mzd_extract_l(D, A);
  RESULT_REGISTER(R);
  VP_CANARY();
  VP_POST(ENS1_mzd_extract(D, A, R, VP_TRI_L));
  VP_POST(ENS2_mzd_extract(D, A, R));
  VP_POST(ENS3_mzd_extract(D, A, R, VP_TRI_L));
  VP_POST(ENS4_mzd_extract(D, A, R));
#elif defined(H_TRANSPOSE)
  VP_PRE(REQ_mzd_transpose(D, A));
  VP_SNAPSHOT();
  R = mzd_transpose(D, A);
  RESULT_REGISTER(R);
  VP_CANARY();
  VP_POST(ENS1_mzd_transpose(D, A, R));
  VP_POST(ENS2_mzd_transpose(D, A, R));
  VP_POST(ENS3_mzd_transpose(D, A, R));
  VP_POST(ENS4_mzd_transpose(D, A, R));
#elif defined(H_TRANSPOSE2)
  /* lemma: transposing twice gives the original (both calls on the real code, results allocated) */
  VP_ASSUME(vg_i >= 0 && vg_i < A_NR && vg_j >= 0 && vg_j < A_NC);
  mzd_t *T  = mzd_transpose(NULL, A);
  mzd_t *TT = mzd_transpose(NULL, T);
  VP_ASSERT(TT->nrows == A->nrows && TT->ncols == A->ncols, "transpose twice: dimensions");
  VP_ASSERT(VP_BIT(TT, vg_i, vg_j) == VP_BIT(A, vg_i, vg_j), "transpose twice gives the original");
  VP_CANARY();
#else
#error mode
#endif
}
