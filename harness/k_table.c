/* layer K: mzd_make_table for concrete k (code book built by the real m4ri_build_code), concrete start column class,
 * M (K+1 rows) and the junk in T symbolic.  Assert mode. */
#include <m4ri/m4ri.h>
#include "table_contracts.h"
#include "vp_codebook.h"

int vg_r, vg_w, vg_b, vh_r, vh_w, vk_r, vk_w, vg_i, vg_j, vg_x, vg_y;

void harness(void) {
  vp_build_codes(KPAR);
  VP_MAT_DECL(M, PR, PRS);
  VP_MAT_SETUP(M, PR, PRS, NR, NC, R0, W0, WIN);
  VP_MAT_DECL(T, (1 << KPAR), T_PRS);
  VP_MAT_SETUP(T, (1 << KPAR), T_PRS, (1 << KPAR), NC, 0, T_W0, T_WIN);
  VP_IN_ARR(rci_t, in_L, (1 << KPAR));
  VP_IN(int, in_x);
  VP_IN(int, in_y);
  VP_IN(int, in_gw);
  VP_IN(int, in_hr);
  VP_IN(int, in_hw);
  VP_IN(int, in_r);
  vg_x = in_x, vg_y = in_y, vg_w = in_gw, vh_r = in_hr, vh_w = in_hw;
  VP_ASSUME(vh_r >= -(R0) && vh_r < (PR) - (R0) && vh_w >= -(W0) && vh_w < (PRS) - (W0));
  for (int w = 0; w < (NC + 63) / 64; ++w) VP_W(T, 0, w) = 0; /* the caller's obligation: row 0 of the table is zero */
  VP_PRE(REQ_mzd_make_table(M, in_r, CCOL, KPAR, T, in_L));
  VP_SNAPSHOT();
  mzd_make_table(M, in_r, CCOL, KPAR, T, in_L);
  VP_CANARY();
  VP_POST(ENS1_mzd_make_table(M, in_r, CCOL, KPAR, T, in_L));
  VP_POST(ENS2_mzd_make_table(M, in_r, CCOL, KPAR, T, in_L));
  VP_POST(ENS3_mzd_make_table(M, in_r, CCOL, KPAR, T, in_L));
  VP_POST(ENS4_mzd_make_table(M, in_r, CCOL, KPAR, T, in_L));
}
