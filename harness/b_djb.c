/* layer B: a compiled DJB linear map applied to a zeroed target yields A*V (C01).  A (M_ x L_) and V (L_ x N_) symbolic;
 * djb_compile destroys its argument, so the spec reads the pristine input block. */
#define VR VRMAX
#define VC VCMAX
#include <m4ri/m4ri.h>
#include <m4ri/djb.h>
#include "alg_spec.h"

int vg_r, vg_w, vg_b, vh_r, vh_w, vk_r, vk_w, vg_i, vg_j;
#define EV(n) ((((n) + 63) / 64 + 1) & ~1)

void harness(void) {
  VP_MAT_DECL(A, M_, EV(L_));
  VP_MAT_SETUP(A, M_, EV(L_), M_, L_, 0, 0, 0);
  VP_MAT_DECL(V, L_, EV(N_));
  VP_MAT_SETUP(V, L_, EV(N_), L_, N_, 0, 0, 0);
  vp_mat_t A0;
  vp_read(&A0, A);
  VP_IN(int, in_gi);
  VP_IN(int, in_gj);
  VP_ASSUME(in_gi >= 0 && in_gi < M_ && in_gj >= 0 && in_gj < N_);
  djb_t *z = djb_compile(A);
  mzd_t *W = mzd_init(M_, N_);
  djb_apply_mzd(z, W, V);
  VP_CANARY();
  int s = 0;
  for (int k = 0; k < L_; ++k) s ^= A0.a[in_gi < VR ? in_gi : 0][k] & VP_BIT(V, k, in_gj);
  VP_ASSERT(VP_BIT(W, in_gi, in_gj) == s, "compiled DJB map applied to a zeroed target equals A*V");
  VP_ASSERT(VP_ROW_CLEAN(W, in_gi), "zero padding of the target");
}
