"""Carrier groups: contracts of kernels that a property's routines are built on, re-run under that property's id so that a change
in the kernel is reported by the check of every property it breaks (the obligation keeps the kernel's name)."""


def pick(groups, *needles, limit=None, prop=None):
    out = [g for g in groups if not g.canary and any(n in g.gid for n in needles)]
    if limit:
        out = out[:limit]
    if prop:
        for g in out:
            if prop not in g.props:
                g.props.append(prop)
    return out
