"""C01 -- multiplication routes.  Layer B: bounded functional checks of the entry points against the GF(2) product
spec (concrete shapes, all operand bits symbolic); layer S: the Strassen-Winograd orchestration for all sizes (shape,
window containment, callee pre-conditions, header balance)."""
from vplib.core import Group, with_canaries
from checks.shapes import mat
from checks import layer_s

LEVEL = "model_checking"
META = {"explanation": "layer B groups decide the product for every bit pattern of the operands of one concrete shape; layer S groups are unbounded but only about shape/safety. The algebra of the Bodrato sequence above the split is NOT verified (stated in DESIGN.md).",
        "assumptions": ["Strassen-Winograd/Bodrato identity above the split: not machine-checked (only its shape/frame obligations are)",
                        "M4RM main loop (8 tables) only in the thorough tier and only in the scalar configuration"]}
TUS = ["mzd", "mmc", "misc", "graycode", "brilliantrussian", "strassen", "mzp", "ple", "ple_russian", "triangular", "triangular_russian", "echelonform", "io", "djb", "debug_dump", "mp", "solve", "@libm"]
FN = {"MUL_NAIVE": "mzd_mul_naive", "ADDMUL_NAIVE": "mzd_addmul_naive", "MUL_VA": "_mzd_mul_va", "ADDMUL_VA": "_mzd_mul_va (accumulate)", "MUL_M4RM": "mzd_mul_m4rm",
      "ADDMUL_M4RM": "mzd_addmul_m4rm", "MUL": "mzd_mul", "ADDMUL": "mzd_addmul"}


def mul_groups(tier, props=("C01", "C09", "C10", "C11", "C12")):
    gs = []

    def add(mode, m, l, n, kd, ka="owned", kb="owned", k=2, cutoff=64, config="host", square=False, timeout=600, slots=2, mem=16, supporting=False, unwind=None):
        d = {**mat(m, l, ka, "A_"), **mat(l, n, kb, "B_")}
        if kd is None:
            d["DNULL"] = None
        else:
            d.update(mat(m, n, kd, "D_"))
        d.update({"H_" + mode: None, "KPAR": k, "CUTOFF": cutoff, "KMAXBUILD": max(k, 2) if "M4RM" in mode or mode in ("MUL", "ADDMUL") else 1})
        if square:
            d["SQUARE"] = None
        tag = "%dx%dx%d.%s-%s-%s.k%d.c%d.%s%s" % (m, l, n, kd or "null", ka, kb, k, cutoff, config, ".sq" if square else "")
        gs.append(Group(gid="B.%s.%s" % (FN[mode].split(" ")[0] + ("_acc" if mode == "ADDMUL_VA" else ""), tag), props=list(props), harness="b_mul.c", function=FN[mode], layer="B", defines=d, tus=TUS,
                        assert_mode=True, unwind=unwind or (max(m, l, n, 64) + 6), config=config, bounded=True, bound_note="shape %s, all operand bits symbolic" % tag, shape=tag,
                        timeout=timeout if tier == "quick" else 3 * timeout, slots=slots, mem_gb=mem, supporting=supporting, solver="--sat-solver cadical"))
    # cubic routes: n < 54 (transpose + 64-way parity kernel; inner dimension <= 40: the AND/XOR parity circuit over two-word
    # rows was measured intractable for SAT at l = 70), n >= 54 (vector-times-matrix route)
    add("MUL_NAIVE", 2, 30, 3, None)
    add("MUL_NAIVE", 2, 20, 20, "view1", "view0", "owned")
    add("MUL_NAIVE", 2, 65, 66, None, "owned", "view1")
    add("MUL_NAIVE", 2, 10, 70, "view1", "owned", "owned")   # supplied destination with arbitrary prior content, n >= 54
    add("ADDMUL_NAIVE", 3, 30, 3, "view1")
    add("ADDMUL_NAIVE", 2, 10, 70, "owned", "view1", "view0")
    add("MUL_VA", 2, 70, 130, "owned")
    add("ADDMUL_VA", 2, 70, 130, "view1", "owned", "view0")
    # Four Russians: a_nr >= 16 and b_nc >= 54 reach the table code; tails only (a_nc < 8k)
    add("MUL_M4RM", 16, 5, 64, None, k=2, timeout=900, slots=2, mem=24)
    add("MUL_M4RM", 16, 9, 64, None, k=2, timeout=900, slots=2, mem=24)
    add("ADDMUL_M4RM", 16, 5, 64, "view1", k=2, timeout=900, slots=2, mem=24)
    # Strassen front end below the split (base case, incl. the copy-in/copy-out branch for views, and the squaring dispatch)
    add("MUL", 3, 30, 20, None, cutoff=64)
    add("MUL", 3, 20, 70, "view1", "view0", "owned", cutoff=0)
    add("ADDMUL", 2, 70, 66, "view1", "owned", "owned", cutoff=64)
    add("MUL", 12, 12, 12, None, square=True, cutoff=64)
    add("MUL", 12, 12, 12, "owned", square=True, cutoff=64)   # supplied destination with arbitrary prior content
    add("ADDMUL", 12, 12, 12, "owned", square=True, cutoff=128)
    # row-block loop of the cubic kernel: block size 64 only under the sub-domain cache configuration (supporting)
    add("MUL_NAIVE", 64, 2, 3, None, config="tinyL3", supporting=True)
    add("MUL_NAIVE", 65, 2, 3, "owned", config="tinyL3", supporting=True)
    if tier == "thorough":
        add("MUL_M4RM", 16, 16, 64, None, k=2, config="scalar", timeout=3000, slots=8, mem=40)
        add("MUL_M4RM", 16, 9, 64, None, k=3, timeout=1800, slots=4, mem=24)
        add("MUL_M4RM", 17, 7, 65, "view1", k=2, timeout=1800, slots=4, mem=24)
        add("MUL_NAIVE", 2, 30, 3, None, config="scalar")
        add("MUL_NAIVE", 1, 70, 1, None, timeout=3000)
        add("MUL_VA", 2, 70, 130, "owned", config="scalar")
        add("MUL_NAIVE", 3, 130, 50, None)
    return gs


def djb_groups(tier, props=("C01",)):
    gs = []
    # measured: out of memory (16 GB) already at 2x3 / 3x3 -- the instruction stream makes every row access a symbolic-index access;
    # kept as a thorough-tier attempt only, DJB is listed as not decided
    for m, l, n in (((2, 2, 10), (2, 3, 70)) if tier == "thorough" else ()):
        d = {"M_": m, "L_": l, "N_": n, "VRMAX": max(m, l), "VCMAX": max(l, 2)}
        tag = "%dx%dx%d" % (m, l, n)
        gs.append(Group(gid="B.djb." + tag, props=list(props), harness="b_djb.c", function="djb_compile + djb_apply_mzd", layer="B", defines=d, tus=TUS, assert_mode=True,
                        unwind=6, refine=True, spec_unwind=max(m, l, 6) + 2, bounded=True, bound_note="A %dx%d, V %dx%d, all bits symbolic" % (m, l, l, n), shape=tag,
                        timeout=1500, slots=2, mem_gb=16, solver="--sat-solver cadical"))
    return gs


def groups(tier, seed):
    return with_canaries(mul_groups(tier)) + with_canaries(djb_groups(tier)) + with_canaries(layer_s.strassen_groups(["C01", "C11", "C09", "C12"]))
