"""C13 -- row/column operations and permutation application (layer K, bounded shapes, symbolic contents)."""
from vplib.core import Group
from checks.shapes import mat, shape_str, KINDS

LEVEL = "model_checking"
META = {"explanation": "bounded model checking of enforced function contracts: every group fixes one concrete shape (rows, columns, rowstride, window placement) and proves the contract for all contents of the matrix, of the surrounding parent block and all scalar arguments"}
TUS = ["mzd", "mmc", "misc", "graycode"]


def rowop_groups(tier, props=("C13", "C09", "C10", "C11")):
    gs = []
    if tier == "quick":
        widths = {"ROW_SWAP": [1, 64, 65, 130, 200], "COL_SWAP": [1, 65, 130, 200], "ROW_ADD_OFFSET": [1, 64, 65, 130, 200, 320, 641],
                  "ROW_CLEAR_OFFSET": [1, 64, 70, 130, 200], "WRITE_BIT": [1, 64, 130], "READ_BIT": [1, 64, 130], "READ_BITS": [1, 64, 65, 130, 200],
                  "XOR_BITS": [1, 64, 65, 130, 200], "CLEAR_BITS": [1, 64, 65, 130, 200]}
    else:
        base = [1, 2, 63, 64, 65, 127, 128, 129, 130, 191, 192, 200, 256, 257, 320, 384, 449, 512, 513, 640, 641, 700]
        widths = {k: base for k in ["ROW_SWAP", "COL_SWAP", "ROW_ADD_OFFSET", "ROW_CLEAR_OFFSET", "READ_BITS", "XOR_BITS", "CLEAR_BITS"]}
        widths["WRITE_BIT"] = widths["READ_BIT"] = [1, 63, 64, 65, 130, 200]
    fn = {"ROW_SWAP": ("_mzd_row_swap", "_mzd_row_swap"), "COL_SWAP": ("mzd_col_swap_in_rows", "mzd_col_swap_in_rows"),
          "ROW_ADD_OFFSET": ("mzd_row_add_offset", "mzd_row_add_offset"), "ROW_CLEAR_OFFSET": ("mzd_row_clear_offset", "mzd_row_clear_offset"),
          "WRITE_BIT": ("mzd_write_bit", "mzd_write_bit"), "READ_BIT": ("mzd_read_bit", "mzd_read_bit"), "READ_BITS": ("mzd_read_bits", "mzd_read_bits"),
          "XOR_BITS": ("mzd_xor_bits", "mzd_xor_bits"), "CLEAR_BITS": ("mzd_clear_bits", "mzd_clear_bits")}
    for h, ncs in widths.items():
        for nc in ncs:
            for kind in KINDS:
                nr = 5 if h == "COL_SWAP" else 3
                d = mat(nr, nc, kind)
                variants = [("", {})]
                if h == "COL_SWAP":
                    # row ranges are enumerated (symbolic start/stop rows make every access a symbolic-offset access: > 5 min);
                    # (0,5): unrolled-by-4 body + 1 rest, (1,4): rest only, (0,4): body only, (2,2): empty range
                    rr = [(0, 5), (1, 4), (2, 2)] if tier == "quick" else [(0, 5), (1, 4), (0, 4), (2, 2), (4, 5), (0, 1)]
                    variants = [(".rows%d-%d" % (a, b), {"ROW_LO": a, "ROW_HI": b}) for a, b in rr]
                    nw = (nc + 63) // 64
                    if nw >= 3:   # wide rows: additionally enumerate the word class of the two columns
                        wp = [(0, nw - 1), (nw - 1, nw - 1), (nw - 2, 0)] if tier == "quick" else [(a, b) for a in range(nw) for b in range(nw)]
                        variants = [(vn + ".w%d-%d" % (aw, bw), dict(vd, AW=aw, BW=bw)) for vn, vd in variants[:(1 if tier == "quick" else None)] for aw, bw in wp]
                for vn, vd in variants:
                    dd = dict(d)
                    dd.update(vd)
                    dd["H_" + h] = None
                    gs.append(Group(gid="K.%s.%dx%d.%s%s" % (fn[h][0], nr, nc, kind, vn), props=list(props), harness="k_rowops.c", function=fn[h][0], layer="K",
                                    defines=dd, tus=TUS, enforce=[fn[h][1]], unwind=d["PRS"] + 6, bounded=True,
                                    bound_note="shape %s%s" % (shape_str(d), vn), shape=shape_str(d) + vn, timeout=300 if tier == "quick" else 900))
    return gs


def groups(tier, seed):
    return rowop_groups(tier)
