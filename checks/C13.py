"""C13 -- row/column operations and permutation application (layer K, bounded shapes, symbolic contents)."""
from vplib.core import Group, with_canaries
from checks.shapes import mat, shape_str, KINDS

LEVEL = "model_checking"
META = {"explanation": "bounded model checking of enforced function contracts: every group fixes one concrete shape (rows, columns, rowstride, window placement) and proves the contract for all contents of the matrix, of the surrounding parent block and all scalar arguments"}
TUS = ["mzd", "mmc", "misc", "graycode"]


def rowop_groups(tier, props=("C13", "C09", "C10", "C11")):
    gs = []
    if tier == "quick":
        widths = {"ROW_SWAP": [1, 64, 65, 130, 200], "COL_SWAP": [1, 65, 130, 200], "ROW_ADD_OFFSET": [1, 64, 65, 130, 200, 320, 641],
                  "ROW_CLEAR_OFFSET": [1, 64, 70, 130, 200], "WRITE_BIT": [1, 64, 130], "READ_BIT": [1, 64, 130], "READ_BITS": [1, 64, 65, 130, 200],
                  "XOR_BITS": [1, 64, 65, 130, 200], "CLEAR_BITS": [1, 64, 65, 130, 200]}
    else:
        base = [1, 2, 63, 64, 65, 127, 128, 129, 130, 191, 192, 200, 256, 257, 320, 384, 449, 512, 513, 640, 641, 700]
        widths = {k: base for k in ["ROW_SWAP", "COL_SWAP", "ROW_ADD_OFFSET", "ROW_CLEAR_OFFSET", "READ_BITS", "XOR_BITS", "CLEAR_BITS"]}
        widths["WRITE_BIT"] = widths["READ_BIT"] = [1, 63, 64, 65, 130, 200]
    fn = {"ROW_SWAP": ("_mzd_row_swap", "_mzd_row_swap"), "COL_SWAP": ("mzd_col_swap_in_rows", "mzd_col_swap_in_rows"),
          "ROW_ADD_OFFSET": ("mzd_row_add_offset", "mzd_row_add_offset"), "ROW_CLEAR_OFFSET": ("mzd_row_clear_offset", "mzd_row_clear_offset"),
          "WRITE_BIT": ("mzd_write_bit", "mzd_write_bit"), "READ_BIT": ("mzd_read_bit", "mzd_read_bit"), "READ_BITS": ("mzd_read_bits", "mzd_read_bits"),
          "XOR_BITS": ("mzd_xor_bits", "mzd_xor_bits"), "CLEAR_BITS": ("mzd_clear_bits", "mzd_clear_bits")}
    for h, ncs in widths.items():
        for nc in ncs:
            for kind in KINDS:
                nr = 5 if h == "COL_SWAP" else 3
                d = mat(nr, nc, kind)
                variants = [("", {})]
                if tier == "quick" and nc >= 600 and kind != "view1":
                    continue   # the widest shape only as a window at an odd word offset in the quick tier
                if h == "COL_SWAP":
                    # row ranges are enumerated (symbolic start/stop rows make every access a symbolic-offset access: > 5 min);
                    # (0,5): unrolled-by-4 body + 1 rest, (1,4): rest only, (0,4): body only, (2,2): empty range
                    rr = [(0, 5), (1, 4), (2, 2)] if tier == "quick" else [(0, 5), (1, 4), (0, 4), (2, 2), (4, 5), (0, 1)]
                    variants = [(".rows%d-%d" % (a, b), {"ROW_LO": a, "ROW_HI": b}) for a, b in rr]
                    nw = (nc + 63) // 64
                    if nw >= 3:   # wide rows: additionally enumerate the word class of the two columns
                        wp = [(0, nw - 1), (nw - 1, nw - 1), (nw - 2, 0)]
                        if tier != "quick":   # all word pairs up to 4 words, otherwise corners, diagonal and neighbours
                            wp = [(a, b) for a in range(nw) for b in range(nw)] if nw <= 4 else sorted(set(
                                [(0, 0), (0, 1), (1, 0), (0, nw - 1), (nw - 1, 0), (nw - 1, nw - 1), (nw - 2, nw - 1), (nw - 1, nw - 2), (nw // 2, nw // 2), (nw // 2, 0), (1, nw - 2), (nw // 2, nw - 1)]))
                        variants = [(vn + ".w%d-%d" % (aw, bw), dict(vd, AW=aw, BW=bw)) for vn, vd in variants[:(1 if tier == "quick" else None)] for aw, bw in wp]
                for vn, vd in variants:
                    dd = dict(d)
                    dd.update(vd)
                    dd["H_" + h] = None
                    gs.append(Group(gid="K.%s.%dx%d.%s%s" % (fn[h][0], nr, nc, kind, vn), props=list(props), harness="k_rowops.c", function=fn[h][0], layer="K",
                                    defines=dd, tus=TUS, enforce=[fn[h][1]], unwind=d["PRS"] + 6, bounded=True,
                                    bound_note="shape %s%s" % (shape_str(d), vn), shape=shape_str(d) + vn, timeout=300 if tier == "quick" else 900))
    return gs


def combine_groups(tier, props=("C13", "C09", "C11", "C12"), config="host", widths=None):
    """mzd_combine_even / _in_place / mzd_combine (the word kernels behind every row addition) and mzd_copy_row"""
    gs = []
    q = tier == "quick"
    ncs = widths or ([60, 128, 190, 320, 445, 640, 700] if q else [1, 60, 64, 128, 190, 192, 256, 320, 384, 445, 512, 576, 640, 700, 832, 1000])
    for nc in ncs:
        w = (nc + 63) // 64
        for mode, fn in (("COMBINE_EVEN", "mzd_combine_even"), ("COMBINE_EVEN_IN_PLACE", "mzd_combine_even_in_place"), ("COMBINE", "mzd_combine")):
            for kind, bkind in (("owned", "owned"), ("view1", "view0"), ("view0", "view1")) if not q else (("owned", "view1"), ("view1", "owned")):
                sbs = [0] + ([1] if w >= 3 else [])
                for sb in sbs:
                    for alias in ([0, 1] if (mode == "COMBINE" and (nc < 400 or not q)) else [0]):
                        d = mat(2, nc, kind)
                        b = mat(2, nc, bkind, "B_")
                        b.pop("B_NR"), b.pop("B_NC")
                        dd = {**d, **b, "H_" + mode: None, "ASB": sb, "BSB": sb, "CSB": sb, "ALIAS": alias}
                        tag = "2x%d.%s-%s.sb%d%s%s" % (nc, kind, bkind, sb, ".alias" if alias else "", "" if config == "host" else "." + config)
                        gs.append(Group(gid="K.%s.%s" % (fn, tag), props=list(props), harness="k_combine.c", function=fn, layer="K", defines=dd, tus=TUS, enforce=[fn],
                                        unwind=w + 6, bounded=True, bound_note="shape " + tag, shape=tag, config=config, timeout=300 if q else 900))
    for (dnc, snc) in ((70, 70), (130, 70), (64, 64), (200, 130), (10, 3)):
        for kind, bkind in (("owned", "view1"), ("view1", "owned")):
            d = mat(2, dnc, kind)
            b = mat(2, max(snc, 1), bkind, "B_")
            b.pop("B_NR"), b.pop("B_NC")
            dd = {**d, **b, "H_COPY_ROW": None, "SRC_NC": snc, "ASB": 0, "BSB": 0, "CSB": 0}
            tag = "%d<-%d.%s-%s%s" % (dnc, snc, kind, bkind, "" if config == "host" else "." + config)
            gs.append(Group(gid="K.mzd_copy_row.%s" % tag, props=list(props), harness="k_combine.c", function="mzd_copy_row", layer="K", defines=dd, tus=TUS, enforce=["mzd_copy_row"],
                            unwind=8, bounded=True, bound_note="shape " + tag, shape=tag, config=config, timeout=300))
    return gs


PERM_FN = {"LEFT": "mzd_apply_p_left", "LEFT_TRANS": "mzd_apply_p_left_trans", "RIGHT": "mzd_apply_p_right", "RIGHT_TRANS": "mzd_apply_p_right_trans",
           "RIGHT_CAPPED": "mzd_apply_p_right_even_capped", "RIGHT_TRANS_CAPPED": "mzd_apply_p_right_trans_even_capped", "TRI": "mzd_apply_p_right_trans_tri"}


def perm_groups(tier, props=("C13", "C09", "C10", "C11")):
    gs = []
    # (mode, nr, nc, plen or None(=dimension), kinds, sparse positions or None)
    cases = []
    kq = ["owned", "view1"]
    for mode in ["LEFT", "LEFT_TRANS"]:
        cases += [(mode, 5, 70, 5, KINDS, None), (mode, 6, 130, 4, kq, None), (mode, 1, 64, 1, kq, None)]
    for mode in ["RIGHT", "RIGHT_TRANS"]:
        cases += [(mode, 2, 20, 20, KINDS, None), (mode, 2, 1, 1, kq, None), (mode, 2, 20, 12, kq, None),
                  (mode, 2, 70, 70, kq, (0, 63, 65)), (mode, 2, 70, 70, kq, (5, 64, 69)), (mode, 2, 130, 130, ["view1"], (1, 64, 128))]
    for mode in ["RIGHT_CAPPED", "RIGHT_TRANS_CAPPED"]:
        cases += [(mode, 3, 20, 20, kq, None), (mode, 3, 70, 70, ["view1"], (2, 63, 66))]
    cases += [("TRI", 3, 8, 8, ["owned", "view1"], None), ("TRI", 7, 7, 7, KINDS, None), ("TRI", 12, 12, 12, ["owned"], (2, 5, 9))]
    if tier == "thorough":
        cases += [("TRI", 5, 66, 66, ["view1"], (1, 3, 63))]
    if tier == "thorough":
        for mode in ["RIGHT", "RIGHT_TRANS"]:
            cases += [(mode, 3, 24, 24, KINDS, None)]
            for p0 in range(0, 64, 7):
                cases += [(mode, 2, 128, 128, ["owned"], (p0, 64 + (p0 * 5) % 64, 63 - p0 % 8))]
    for mode, nr, nc, plen, kinds, sparse in cases:
        for kind in kinds:
            d = mat(nr, nc, kind)
            dd = dict(d)
            dd["H_" + mode] = None
            dd["PLEN"] = plen
            tag = "full"
            if sparse:
                dd.update(SPARSE=None, POS1=sparse[0], POS2=sparse[1], POS3=sparse[2])
                tag = "sparse%d-%d-%d" % sparse
            fnm = PERM_FN[mode]
            if "CAPPED" in mode:
                dd["ROW0"] = 1
            gs.append(Group(gid="K.%s.%dx%d.p%d.%s.%s" % (fnm, nr, nc, plen, tag, kind), props=list(props), harness="k_perm.c", function=fnm, layer="K",
                            defines=dd, tus=TUS + ["mzp"], enforce=[fnm], assert_mode=("LEFT" not in mode), solver=(None if "LEFT" in mode else "--sat-solver cadical"),
                            unwind=max(nc, nr, plen, 17) + 3, bounded=True,
                            bound_note="shape %s, permutation length %d (%s)" % (shape_str(d), plen, "all entries symbolic" if not sparse else "identity except symbolic entries at %s" % (sparse,)),
                            shape=shape_str(d) + " plen=%d %s" % (plen, tag), timeout=600 if tier == "quick" else 1800))
    return gs


def compress_groups(tier, props=("C13", "C03", "C09", "C12")):
    """_mzd_compress_l (mzp.c), the compression step of the block-recursive PLE, under its own contract.
    (r1, n1, r2, nrows, ncols, kinds, zero rows or None): rest = 64 - r1 % 64 bits first, then whole words (aligned / shifted), then a partial word"""
    cases = [(3, 64, 2, 7, 70, ["owned", "view1"], None), (0, 64, 3, 5, 67, ["owned"], None), (5, 64, 0, 6, 65, ["owned"], None), (64, 64, 3, 68, 70, ["owned"], None),
             (63, 64, 66, 131, 130, ["owned"], (63, 120)), (10, 64, 60, 80, 128, ["owned"], (10, 65)),   # last: rowstride == width, the tail of L2 in the row's last word (60, 64, 70, 132, 134, ["view1"], (60, 125)),
             (64, 128, 130, 196, 258, ["owned"], (64, 190))]
    if tier == "thorough":
        cases += [(63, 64, 66, 131, 130, ["owned", "view1"], None), (1, 128, 200, 203, 330, ["owned"], (1, 198))]
    gs = []
    for r1, n1, r2, nr, nc, kinds, z in cases:
        for kind in kinds:
            d = mat(nr, nc, kind)
            dd = dict(d)
            dd.update(H_COMPRESS=None, PLEN=1, CR1=r1, CN1=n1, CR2=r2)
            note = "all cells symbolic"
            if z:
                dd.update(ZROWS=None, ZLO=z[0], ZHI=z[1])
                note = "rows [%d,%d) zero, the others symbolic" % z
            gs.append(Group(gid="K._mzd_compress_l.%dx%d.r%d-n%d-r%d.%s" % (nr, nc, r1, n1, r2, kind), props=list(props), harness="k_perm.c", function="_mzd_compress_l", layer="K",
                            defines=dd, tus=TUS + ["mzp"], enforce=["_mzd_compress_l"], assert_mode=True, solver="--sat-solver cadical",
                            unwind=max(nr, 17) + 3, bounded=True, bound_note="shape %s, r1=%d n1=%d r2=%d (%s)" % (shape_str(d), r1, n1, r2, note),
                            shape=shape_str(d) + " r1=%d n1=%d r2=%d" % (r1, n1, r2), timeout=600 if tier == "quick" else 1800, mem_gb=32 if nr > 150 else 12, slots=3 if nr > 150 else 1))
    return gs


def groups(tier, seed):
    from vplib.core import with_canaries
    return with_canaries(rowop_groups(tier) + combine_groups(tier) + perm_groups(tier) + compress_groups(tier))
