"""What MANIFEST.json claims.  CLAIMED[pid] = level/text/note/technique; NOT_APPLICABLE[pid] = reason."""

_T = "CBMC code contracts on the real C functions (goto-cc, goto-instrument --dfcc --enforce-contract / --replace-call-with-contract / --apply-loop-contracts, cbmc); "
_TB = _T + "bounded groups: one concrete shape per instance, all contents symbolic"

CLAIMED = {
    "C19": {
        "level": "proof",
        "text": "Every obligation is unbounded or a completely enumerated finite domain: the word kernels (bit reversal, 64x64 parity, the three mask macros, lesser-LSB, spread/shrink) are loop-free code checked by CBMC over their full input domain against closed-form contracts (ghost bit index); m4ri_gray_code is checked for all l<=16 and all arguments; m4ri_build_code is verified under its contract for every k with its data loops closed by mechanically inserted loop invariants (no unwinding of the 2^k iterations).",
        "design_ref": "DESIGN.md 3/C19 and 8",
        "note": "Trusted: CBMC 6.11 (front end, dfcc, SAT back ends), the spec macros in contracts/c19_contracts.h. Quick tier covers k<=14 of the code book, thorough all 16. mzd_make_table (the consumer of the code book) is verified under its own subset-sum contract for k<=5 (bounded in the row width; k = 6..8 thorough-tier explorations).",
        "technique": _T + "full-domain symbolic inputs, loop invariants for m4ri_build_code",
    },
    "C14": {
        "level": "proof",
        "text": "Inductive representation invariants: every operation of the block cache (m4ri_mmc_malloc/calloc/free/cleanup) and of the header cache (mzd_t_malloc/mzd_t_free) is verified from an arbitrary invariant-satisfying state (the eviction cursor is driven to an arbitrary position by the real code), so preservation and the per-operation post-conditions (fresh zeroed storage, disjointness from live blocks, no double caching, windows never free their parent, nothing retained after cleanup) hold after every history; loops have constant bounds (16/64) and are unwound completely.",
        "design_ref": "DESIGN.md 3/C14",
        "note": "mzd_init / mzd_init_window / mzd_free groups fix a box for rows/cols (stated per group, bounded); cached block sizes <= 4096 bytes in the constructed state; trusted: CBMC's malloc/free model and its memory-leak check.",
        "technique": "assertion harnesses over the real mmc.c / mzd.c from a non-deterministically constructed invariant state, complete unwinding of constant-bound loops (cbmc)",
    },
    "C20": {
        "level": "proof",
        "text": "With an allocator that may fail at every call (cbmc --malloc-may-fail --malloc-fail-null) each allocation wrapper and each function that calls malloc/realloc directly either does not return (m4ri_die) or returns complete objects; a mechanical scan of the sources shows every other allocation goes through those wrappers, so a failure at any position of any scenario is covered without enumerating positions; scenario harnesses (transpose, copy, permutation, submatrix, concat) run the real routines with pointer checks on.",
        "design_ref": "DESIGN.md 3/C20",
        "note": "m4ri_die is taken by its body (vfprintf + abort); CBMC's models of abort/posix_memalign are trusted; libpng/stdio allocation sites are outside (C18 not claimed).",
        "technique": "assertion harnesses with CBMC's failing allocator + syntactic scan of raw allocation sites",
    },
    "C13": {
        "level": "model_checking",
        "text": "Function contracts (cell-wise value + frame over the whole parent block) for row swap, column swap in a row range, row add / clear from a column, bit read/write/xor/clear, the combine kernels, the seven permutation applications and the compression step of the block-recursive PLE (_mzd_compress_l) are enforced on the real code for an enumerated envelope of concrete shapes (owned, window at word offset 0, window at odd word offset; every width class), with all matrix contents, parent contents and scalar arguments symbolic. Bounded: nothing is claimed beyond the enumerated shapes.",
        "design_ref": "DESIGN.md 3/C13",
        "note": "shape envelope listed in the evidence; permutations fully symbolic up to length 20, identity-except-3-symbolic-entries for 70/130 columns; strip loop of the column-permutation kernel executes once in every shape.",
        "technique": _TB,
    },
    "C17": {
        "level": "model_checking",
        "text": "mzd_equal, mzd_cmp, mzd_is_zero, mzd_first_zero_row, mzd_find_pivot are enforced against abstract-matrix specs (spec loops over cells) for enumerated shapes incl. windows whose parent bits around the view are symbolic; antisymmetry/transitivity of mzd_cmp and read-after-write as lemma harnesses on the real code.",
        "design_ref": "DESIGN.md 3/C17",
        "note": "bounded shapes (rows<=4, up to 4 words); all contents symbolic.",
        "technique": _TB,
    },
    "C08": {
        "level": "model_checking",
        "text": "mzd_add/_mzd_add (all aliasing forms, every width-specialised case), mzd_copy, mzd_set_ui, mzd_submatrix (aligned and unaligned), mzd_concat, mzd_stack, mzd_extract_u/l and mzd_transpose (every kernel size class up to 70x70 / 200 columns) are enforced against cell-wise contracts with destination supplied (frame over its whole block) or allocated (dimensions, zero padding), sources unchanged.",
        "design_ref": "DESIGN.md 3/C08",
        "note": "bounded shapes; the >512 recursive transpose splitter is not reached.",
        "technique": _TB,
    },
    "C09": {
        "level": "model_checking",
        "text": "The view dimension of the contracts of C13/C17/C08/C01: every group whose operand is a window (word offset 0 and odd word offset, parent wider, last word shared) with symbolic parent content; frame clause over every word of the parent block including the bits beyond ncols; sources bit-for-bit unchanged.",
        "design_ref": "DESIGN.md 3/C09",
        "note": "bounded shapes; alignment faults are not modelled by CBMC (stated); non-interference is covered by the value clause being a function of view cells only.",
        "technique": _TB,
    },
    "C10": {
        "level": "model_checking",
        "text": "Zero padding of owned results (VP_ROW_CLEAN on every allocated result), arbitrary prior destination contents (destinations symbolic), heap independence (calloc zeroing proved in C14 from arbitrary recycled content): carried by the contracts of C08/C13/C01 and the allocator groups.",
        "design_ref": "DESIGN.md 3/C10",
        "note": "inherits the bounds of the carrier groups.",
        "technique": _TB,
    },
    "C11": {
        "level": "model_checking",
        "text": "(a) 20 public wrappers: with incompatible dimensions the call does not return and touches no operand word (dimensions symbolic, operand storage dangling) -- unbounded; (b) the orchestration layers (Strassen-Winograd, the four TRSM recursions, triangular inversion, PLUQ solve, kernel, PLUQ-based echelon form, inversion front end) meet every callee's shape / index-range pre-condition, windows lie inside their parents, no int overflow in the size arithmetic, every temporary is released, for all sizes, ranks and cutoffs -- unbounded (loop invariants); (c) CBMC's built-in bounds/pointer/shift/overflow obligations on the kernel contract groups -- bounded shapes.",
        "design_ref": "DESIGN.md 3/C11",
        "note": "vector alignment traps are not modelled by CBMC (16-byte alignment is asserted in front of every _mm_xor_si128 statement of the combine kernels instead); dimensions <= 2^29 assumed in layer S.",
        "technique": _T + "dangling-operand wrapper harnesses; modular shape contracts with --replace-call-with-contract",
    },
    "C01": {
        "level": "model_checking",
        "text": "Layer B: cubic routes, vector-times-matrix route, Four-Russians (tail tables), the Strassen front end below the split incl. views and the squaring dispatch, against the GF(2) product spec for concrete small shapes with all operand bits symbolic; layer S: the Strassen-Winograd recursion for all sizes and cutoffs (shape, window containment, callee pre-conditions, header balance, termination measure).",
        "design_ref": "DESIGN.md 3/C01",
        "note": "the algebra of the Bodrato sequence above the split, the M4RM 8-table main loop (thorough, scalar configuration only), mzd_mul_mp and DJB are not decided.",
        "technique": _TB + "; modular shape contracts for the recursion",
    },
    "C02": {"level": "model_checking", "text": "Bounded: mzd_echelonize_naive on 3x5 / 4x3 fully symbolic matrices and views (returned rank, exact RREF with full reduction, otherwise a REF with the same row space, against a spec-side textbook elimination); the row-update stage of M4RI elimination (mzd_process_rows, mzd_process_rows2..6) under stage contracts (up to 24 pivot bits) plus a cut-point obligation on the pivot-bit read of mzd_process_rows2..6 for every k up to 64 (k symbolic); mzd_find_pivot under its observer contract. Unbounded (layer S): mzd_echelonize_pluq for all shapes and ranks -- windows, conforming triangular solves, index ranges, releases, every non-pivot column solved once (full reduction), row i has exactly its first i+1 cells cleared and the pivot cell inside the matrix (no full reduction).",
            "design_ref": "DESIGN.md 8.4, 8.5", "note": "mzd_echelonize_m4ri / the hybrid route as a whole and the algebra of the PLUQ-based route are not decided (measured intractable at 3x5); thorough tier lists them as explorations.", "technique": "modular shape / window / index-range / header-balance contracts for the orchestration (goto-instrument --dfcc --enforce-contract --replace-call-with-contract --apply-loop-contracts, all dimensions symbolic) + bounded model checking of the real entry points against spec-side linear algebra (cbmc, unwinding refinement, one concrete small shape per instance, all operand bits symbolic)"},
    "C03": {"level": "model_checking", "text": "Bounded: _mzd_pluq_naive and _mzd_ple_naive on 3x5 / 4x3 fully symbolic matrices with junk P/Q on entry (rank, LAPACK ranges, P L U Q = A certificate, zero storage); _mzd_compress_l (compression step of the block-recursive PLE) under its own stage contract incl. the whole-word regimes. Unbounded (layer S): _mzd_pluq on top of PLE and the checked wrappers mzd_pluq / mzd_ple for all shapes.",
            "design_ref": "DESIGN.md 8.4, 8.5", "note": "_mzd_ple_russian and the recursion of _mzd_ple are not decided (measured intractable / permutation data loops); thorough tier lists 2x3 explorations.", "technique": "modular shape / window / index-range / header-balance contracts for the orchestration (goto-instrument --dfcc --enforce-contract --replace-call-with-contract --apply-loop-contracts, all dimensions symbolic) + bounded model checking of the real entry points against spec-side linear algebra (cbmc, unwinding refinement, one concrete small shape per instance, all operand bits symbolic)"},
    "C04": {"level": "model_checking", "text": "Bounded: the four public TRSM routines on 4x4 / 3x3 triangles (views) with symbolic junk in the opposite triangle and on the diagonal, right-hand sides of 3-4 columns and, for the right-hand variants, 66 rows: T*X == B resp. X*T == B, T unchanged. Unbounded (layer S): the four block recursions, the inversion-based variant (triangularity ghost) and the checked wrappers for all orders, widths and cutoffs -- windows inside parents, conforming updates, base case / Russian routine only in their size regime, header balance.",
            "design_ref": "DESIGN.md 8.4, 8.5", "note": "the Russian routines (64 < n <= 2048) and the algebra of the recursion are not decided; _mzd_addmul with cutoff < 64 is an assumed contract.", "technique": "modular shape / window / index-range / header-balance contracts for the orchestration (goto-instrument --dfcc --enforce-contract --replace-call-with-contract --apply-loop-contracts, all dimensions symbolic) + bounded model checking of the real entry points against spec-side linear algebra (cbmc, unwinding refinement, one concrete small shape per instance, all operand bits symbolic)"},
    "C05": {"level": "model_checking", "text": "Bounded: mzd_invert_naive, mzd_inv_m4ri on every invertible 3x3 matrix, mzd_trtri_upper on every unit upper triangular 4x4 matrix (A*B == B*A == I, A unchanged). Unbounded (layer S): the recursive triangular inversion and the Four-Russians inversion front end for all orders (placement of [A | I], admissible table parameter handed to the elimination for every caller k, copy sizes, header balance).",
            "design_ref": "DESIGN.md 8.4, 8.5", "note": "functional clause n <= 4 only.", "technique": "modular shape / window / index-range / header-balance contracts for the orchestration (goto-instrument --dfcc --enforce-contract --replace-call-with-contract --apply-loop-contracts, all dimensions symbolic) + bounded model checking of the real entry points against spec-side linear algebra (cbmc, unwinding refinement, one concrete small shape per instance, all operand bits symbolic)"},
    "C06": {"level": "model_checking", "text": "Bounded: _mzd_pluq_solve_left on harness-built factorisations of every concrete rank for shapes 1x2, 2x2, 2x3, 3x2 (verdict == rank test incl. padding rows, A*X == B when solvable) and the padding-row verdict of _mzd_solve_left. Unbounded (layer S): _mzd_pluq_solve_left, mzd_pluq_solve_left, _mzd_solve_left for all shapes, ranks and flags -- conforming solves incl. rank 0 and full rank, windows, index ranges of the bit accessors, every temporary released on every return path.",
            "design_ref": "DESIGN.md 8.4, 8.5", "note": "the factorisation itself is property C03; inside the bounded instances it is constructed by the harness (stated substitution when compiling solve.c).", "technique": "modular shape / window / index-range / header-balance contracts for the orchestration (goto-instrument --dfcc --enforce-contract --replace-call-with-contract --apply-loop-contracts, all dimensions symbolic) + bounded model checking of the real entry points against spec-side linear algebra (cbmc, unwinding refinement, one concrete small shape per instance, all operand bits symbolic)"},
    "C07": {"level": "model_checking", "text": "Bounded: mzd_kernel_left_pluq on factorisations of every concrete rank for shapes 2x3, 3x3, 3x2 (NULL iff full column rank, A*K == 0, rank K == n-r). Unbounded (layer S): for all shapes and ranks -- NULL exactly when the rank equals the column count, otherwise a fresh n x (n - r) header, every bit access in range, temporaries released; mzd_first_zero_row under its observer contract.",
            "design_ref": "DESIGN.md 8.4, 8.5", "note": "the factorisation itself is property C03 (constructed by the harness in the bounded instances).", "technique": "modular shape / window / index-range / header-balance contracts for the orchestration (goto-instrument --dfcc --enforce-contract --replace-call-with-contract --apply-loop-contracts, all dimensions symbolic) + bounded model checking of the real entry points against spec-side linear algebra (cbmc, unwinding refinement, one concrete small shape per instance, all operand bits symbolic)"},
}

CLAIMED["C12"] = {
    "level": "model_checking",
    "text": "The identical contracts / product specs are re-checked under generated configurations: SSE2 off (scalar fallbacks of row_add_offset, combine, _mzd_add), the smallest in-domain cache triple (4 KiB, 32 KiB, 64 KiB; strip heights, block size, default cutoff), both, and the thread-safe build (block and header caches off); table parameter k in {0,1,2,3,9} and cutoffs {0,1,64,100,4096} on the multiplication entry points; unbounded part: the Strassen orchestration is proved for an arbitrary cutoff and an arbitrary default cutoff (libm stub returns any value); the pivot-bit read of mzd_process_rows2..6 is decided for every table parameter k up to 64 (k symbolic, cut-point obligation).",
    "design_ref": "DESIGN.md 3/C12 and 8",
    "note": "bounded shapes inherited from the carriers; OpenMP on is not covered; only two cache triples are instantiated.",
    "technique": _TB + "; repeated per generated m4ri_config.h variant",
}
CLAIMED["C18"] = {
    "level": "model_checking",
    "text": "The real io.c linked against written-out ASSUMED contracts of stdio and libpng: mzd_from_str builds exactly the denoted matrix reading exactly m*n characters; mzd_from_jcf on arbitrary token streams / header fields never accesses memory outside the matrix, rejects bad headers with NULL and builds the denoted matrix; mzd_from_png with an arbitrary IHDR (bit depth, colour type, channels, interlace) stays inside its row buffer and rejects unsupported files; mzd_to_png followed by mzd_from_png is the identity for column counts in every residue class mod 8 and around 64.",
    "design_ref": "DESIGN.md 3/C18 and 8",
    "note": "libpng/stdio are assumptions (stubs/png_stub.c, stubs/stdio_stub.c); malformed file bytes (truncation, CRC) are libpng's domain and not modelled; dimensions enumerated (<= 3 x 130).",
    "technique": "bounded model checking of the real io.c against assumed contracts of its external libraries (cbmc)",
}

NOT_APPLICABLE = {
    "C15": "thread interleavings: CBMC's contract instrumentation is sequential; no contract within reach expresses or decides race freedom of 2..16 threads (DESIGN.md 3/C15)",
    "C16": "OpenMP pragmas have no semantics in goto-cc and mp.c is empty in the pinned configuration; a contract proof of the sequential text would say nothing about sections/schedules (DESIGN.md 3/C16)",
}
HOOK_COMMITS = ["bec967df864dbebefd0e73acdfb14866f9a11d94"]
