"""What MANIFEST.json claims.  CLAIMED[pid] = level/text/note/technique; NOT_APPLICABLE[pid] = reason."""

CLAIMED = {
    "C19": {
        "level": "proof",
        "text": "Every obligation is unbounded or a completely enumerated finite domain: the word kernels (bit reversal, 64x64 parity, the three mask macros, lesser-LSB, spread/shrink) are loop-free code checked by CBMC over their full input domain against closed-form contracts (ghost bit index); m4ri_gray_code is checked for all l<=16 and all arguments; m4ri_build_code is verified under its contract for every k=1..16 with its data loops closed by mechanically inserted loop invariants (no unwinding of the 2^k iterations); mzd_make_table is checked against the subset-sum spec with the code book built by the real routine.",
        "design_ref": "DESIGN.md 3/C19",
        "note": "Trusted: CBMC 6.11 (front end, dfcc, SAT back end), the spec macros in contracts/c19_contracts.h. mzd_make_table groups are bounded in the row width (stated in the evidence); everything else has no bound. Quick tier covers k<=14 of the code book, thorough all 16.",
        "technique": "CBMC code contracts (goto-instrument --dfcc --enforce-contract, loop invariants via --apply-loop-contracts) on the real functions; full-domain symbolic inputs",
    },
}

_todo = "check not implemented yet in this round (planned, see DESIGN.md 3); nothing is claimed"
NOT_APPLICABLE = {
    "C15": "thread interleavings: CBMC's contract instrumentation is sequential; no contract within reach expresses or decides race freedom of 2..16 threads (DESIGN.md 3/C15)",
    "C16": "OpenMP pragmas have no semantics in goto-cc and mp.c is empty in the pinned configuration; a contract proof of the sequential text would say nothing about sections/schedules (DESIGN.md 3/C16)",
}
for _p in ["C01", "C02", "C03", "C04", "C05", "C06", "C07", "C08", "C09", "C10", "C11", "C12", "C13", "C14", "C17", "C18", "C20"]:
    if _p not in CLAIMED:
        NOT_APPLICABLE[_p] = _todo
