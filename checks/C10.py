"""C10 -- purity and zero padding.  Carried by (a) every contract group whose result is allocated by the call (the
contract demands an owned, well-formed result whose excess bits are zero: VP_ROW_CLEAN, with the heap recycled from a
symbolic state), (b) the allocator groups of C14 that prove calloc/mzd_init zero their storage whatever the caches held,
(c) groups with a supplied destination whose prior content is symbolic."""
from vplib.core import with_canaries

LEVEL = "model_checking"
META = {"explanation": "carrier contracts restricted to: results allocated by the call (padding clause), destinations with arbitrary prior content, and the allocator zeroing obligations; history independence reduces to the C14 invariants (the only mutable globals are the two caches and the code book)"}


def groups(tier, seed):
    from checks import C08, C14, C01
    gs = [g for g in C08.move_groups(tier) if ".null" in g.gid and not (tier == "quick" and g.gid.startswith("K.mzd_transpose.") and g.slots > 1)]
    gs += [g for g in C14.groups(tier, seed) if not g.canary and any(x in g.gid for x in ("calloc", "init", "mmc_malloc"))]
    gs += [g for g in C01.mul_groups(tier) if ".null" in g.gid][:3]
    # destinations with prior content / last word shared with the padding: the adders' end-mask classes and the naive product into a window
    gs += [g for g in C08.move_groups(tier) if g.gid.startswith("K._mzd_add.2x125.")]
    gs += [g for g in C01.mul_groups(tier) if g.gid.startswith("B.mzd_mul_naive.2x10x70.")]
    for g in gs:
        if "C10" not in g.props:
            g.props.append("C10")
    return with_canaries(gs)
