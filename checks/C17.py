"""C17 -- observers agree with the abstract matrix (layer K, bounded shapes, symbolic contents)."""
from vplib.core import Group, with_canaries
from checks.shapes import mat, shape_str

LEVEL = "model_checking"
META = {"explanation": "bounded model checking of enforced function contracts; the abstract-matrix side (for all / exists over cells) is a spec loop over VP_BIT, unwound completely for the concrete shape"}
TUS = ["mzd", "mmc", "misc", "graycode"]
FN = {"EQUAL": "mzd_equal", "CMP": "mzd_cmp", "CMP_ORDER": "mzd_cmp (antisymmetry, transitivity)", "IS_ZERO": "mzd_is_zero", "FIRST_ZERO_ROW": "mzd_first_zero_row",
      "FIND_PIVOT": "mzd_find_pivot", "RW_BIT": "mzd_read_bit o mzd_write_bit"}
ENF = {"EQUAL": "mzd_equal", "CMP": "mzd_cmp", "IS_ZERO": "mzd_is_zero", "FIRST_ZERO_ROW": "mzd_first_zero_row", "FIND_PIVOT": "mzd_find_pivot"}


def obs_groups(tier, props=("C17", "C09", "C11")):
    gs = []

    def add(mode, d, tag, extra=None, unwind=None, timeout=300, refine=False):
        dd = dict(d)
        dd["H_" + mode] = None
        if extra:
            dd.update(extra)
        gs.append(Group(gid="K.%s.%s" % (FN[mode].split(" ")[0] + ("_order" if mode == "CMP_ORDER" else "") + ("_rw" if mode == "RW_BIT" else ""), tag), props=list(props),
                        harness="k_obs.c", function=FN[mode], layer="K", defines=dd, tus=TUS, enforce=[ENF[mode]] if mode in ENF else [],
                        unwind=unwind or (max(d["NC"], 64) // 1 + 70), refine=refine, assert_mode=(mode == "FIND_PIVOT"), solver=("--sat-solver cadical" if mode == "FIND_PIVOT" else None), bounded=True, bound_note="shape " + tag, shape=tag, timeout=timeout if tier == "quick" else 1200))
    ncs = [1, 10, 64, 65, 130, 200] if tier == "quick" else [1, 2, 10, 63, 64, 65, 127, 128, 129, 130, 192, 200, 256]
    for nc in ncs:
        for ka, kb in (("owned", "owned"), ("view1", "owned"), ("view0", "view1")):
            a = mat(3, nc, ka)
            b = mat(3, nc, kb, "B_")
            tag = "3x%d.%s-%s" % (nc, ka, kb)
            add("EQUAL", {**a, **b}, tag, unwind=12)
            add("CMP", {**a, **b}, tag, unwind=12)
        for k in ("owned", "view0", "view1"):
            a = mat(4, nc, k)
            add("IS_ZERO", a, "4x%d.%s" % (nc, k), unwind=12)
            add("FIRST_ZERO_ROW", a, "4x%d.%s" % (nc, k), unwind=12)
            # pivot search: 3 rows up to 65 columns (start column fully symbolic); 2 rows per start-word class for 130 columns; 200 columns thorough only
            if nc <= 70:
                add("FIND_PIVOT", mat(3, nc, k), "3x%d.%s" % (nc, k), unwind=6, refine=True, timeout=600)
            elif nc <= 130 or tier == "thorough":
                if k == "view0" and tier == "quick":
                    continue
                nw = (nc + 63) // 64
                for w in range(nw):
                    lo, hi = 64 * w, min(nc - 1, 64 * w + 63)
                    add("FIND_PIVOT", mat(2, nc, k), "2x%d.%s.c0w%d" % (nc, k, w), extra={"C0_LO": lo, "C0_HI": hi}, unwind=6, refine=True, timeout=900)
    # different dimensions
    for (anr, anc, bnr, bnc) in ((3, 65, 3, 64), (2, 65, 3, 65), (3, 64, 3, 65)):
        a = mat(anr, anc, "owned")
        b = mat(bnr, bnc, "owned", "B_")
        add("EQUAL", {**a, **b}, "%dx%d-vs-%dx%d" % (anr, anc, bnr, bnc), unwind=12)
        add("CMP", {**a, **b}, "%dx%d-vs-%dx%d" % (anr, anc, bnr, bnc), unwind=12)
    for nc in ([65, 130] if tier == "quick" else [1, 64, 65, 130, 200]):
        a = mat(2, nc, "view1")
        b = mat(2, nc, "owned", "B_")
        add("CMP_ORDER", {**a, **b}, "2x%d" % nc, unwind=12)
    for nc in (1, 65, 130):
        for k in ("owned", "view1"):
            add("RW_BIT", mat(3, nc, k), "3x%d.%s" % (nc, k), unwind=12)
    return gs


def groups(tier, seed):
    return with_canaries(obs_groups(tier))
