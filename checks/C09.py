"""C09 -- views.  Not a separate set of functions but the window dimension of the kernel contracts: this check runs the
groups of C13 / C17 / C08 / C01 whose destination or operand is a window inside a parent block with symbolic content
(frame clause over the whole parent block incl. the bits beyond ncols in the view's last word; sources unchanged)."""
from vplib.core import with_canaries

LEVEL = "model_checking"
META = {"explanation": "carrier contracts of C13/C17/C08/C01 restricted to the groups with a window operand (word offset 0 and odd word offset; parent wider; last word shared), parent content symbolic; a violation is reported with the carrier's obligation name",
        "assumptions": ["alignment traps of 16-byte vector accesses are not modelled by CBMC (the SSE2 kernels are verified for value/frame at odd word offsets, not for faults)"]}


def groups(tier, seed):
    from checks import C13, C17, C08, C01
    gs = []
    sel = (lambda g: ".view1" in g.gid) if tier == "quick" else (lambda g: "view" in g.gid)
    gs += [g for g in C13.rowop_groups(tier) if sel(g) and not any(x in g.gid for x in ("read_bit.", "x1.view", "x64.view"))]
    gs += [g for g in C13.perm_groups(tier) if "view" in g.gid]
    gs += [g for g in C13.compress_groups(tier) if "view" in g.gid and ".7x70." in g.gid]   # the frame clause that exposed finding F17
    gs += [g for g in C17.obs_groups(tier) if "view1" in g.gid and ("x65" in g.gid or "x130" in g.gid or "x10." in g.gid)]
    gs += [g for g in C08.move_groups(tier) if "view1" in g.gid and not g.gid.startswith("K.mzd_transpose.")][: (60 if tier == "quick" else 10000)]
    gs += [g for g in C08.move_groups(tier) if g.gid.startswith("K.mzd_transpose.") and "view1" in g.gid][:4]
    gs += [g for g in C01.mul_groups(tier) if "view" in g.gid][:4]
    for g in gs:
        if "C09" not in g.props:
            g.props.append("C09")
    return with_canaries(gs)
