"""C12 -- results do not depend on build configuration or tuning parameters.
Contract reading: a contract is a configuration-free statement of the result; the identical contract / product spec is
checked under generated m4ri_config.h variants (SSE2 off, smallest in-domain caches, both, block+header caches off) and
for several table parameters k and cutoffs.  Unbounded part: layer S proves the Strassen orchestration for an arbitrary
cutoff and an arbitrary default cutoff (libm stub returns any value)."""
import copy
from vplib.core import with_canaries

LEVEL = "model_checking"
META = {"explanation": "the carrier contracts of C13/C08/C01/C14 re-checked under each generated configuration; same obligations, same shapes; a configuration-dependent result fails the carrier's value clause in that configuration",
        "assumptions": ["OpenMP on: not covered (mp.c is empty in the pinned configuration)", "cache triples: host, (4 KiB, 32 KiB, 64 KiB) only; intermediate triples are covered only by layer S (cutoff arbitrary)"]}
CONFIGS = ["scalar", "small", "scalar_small", "nocache"]


def _clone(g, cfg, extra_defs=None, tag=None):
    c = copy.deepcopy(g)
    c.config = cfg
    c.gid = g.gid + "@" + (tag or cfg)
    c.shape = (g.shape + " @" + (tag or cfg)).strip()
    if "C12" not in c.props:
        c.props = ["C12"] + [p for p in c.props if p != "C12"]
    if extra_defs:
        c.defines.update(extra_defs)
    return c


def groups(tier, seed):
    from checks import C13, C08, C01, C14, layer_s
    gs = []
    q = tier == "quick"
    # SIMD-dependent kernels without SSE2
    base = [g for g in C13.rowop_groups(tier) if "mzd_row_add_offset" in g.gid and (".view1" in g.gid or not q) and any(x in g.gid for x in ("x200", "x641", "x65."))]
    base += [g for g in C13.combine_groups(tier) if any(x in g.gid for x in ("2x445", "2x700", "2x190")) and ("sb0" in g.gid)]
    base += [g for g in C08.move_groups(tier) if g.gid.startswith("K._mzd_add.2x573") or g.gid.startswith("K._mzd_add.2x701")]
    for g in base:
        gs.append(_clone(g, "scalar"))
    # cache-size dependent strip heights / block sizes / default cutoff
    cs = [g for g in C13.perm_groups(tier) if ("apply_p_right.2x20.p20.full.owned" in g.gid or "tri.7x7.p7.full.owned" in g.gid or "apply_p_right_trans.2x70" in g.gid and "owned" in g.gid)]
    cs += [g for g in C01.mul_groups(tier) if any(x in g.gid for x in ("B.mzd_mul_naive.2x30x3", "B.mzd_mul.3x20x70", "B.mzd_mul.12x12x12.null", "B._mzd_mul_va.2x70x130.owned"))]
    for g in cs:
        for cfg in (["small", "scalar_small"] if q else ["small", "scalar_small", "mid"]):
            gs.append(_clone(g, cfg))
    # thread-safe build (no block cache, no header cache), sequentially
    nc = [g for g in C14.groups(tier, seed) if not g.canary and any(x in g.gid for x in ("A.init.CMAX130", "A.window_free.CMAX130", "A.fini"))]
    nc += [g for g in C08.move_groups(tier) if g.gid.startswith("K.mzd_transpose.17x65.null") or g.gid.startswith("K.mzd_copy.3x70.null")]
    for g in nc:
        gs.append(_clone(g, "nocache"))
        gs.append(_clone(g, "scalar_nocache"))
    # tuning parameters: table parameter k (clipped to 2..8 inside) and cutoff
    m4 = [g for g in C01.mul_groups(tier) if g.gid.startswith("B.mzd_mul_m4rm.16x5x64.null")]
    for g in m4:
        for k in (0, 1, 3, 9):
            c = _clone(g, "host", {"KPAR": k, "KMAXBUILD": 8 if k in (0, 9) else max(k, 2)}, "k%d" % k)
            c.timeout = 1500
            if k in (0, 9):   # the code book for k = 8 is built by the real m4ri_build_code: 256-iteration loops
                c.unwindset = dict(c.unwindset, **{"m4ri_build_code.0": 258, "m4ri_build_code.1": 258, "m4ri_build_code.2": 258})
            gs.append(c)
        gs.append(_clone(g, "scalar"))
    mu = [g for g in C01.mul_groups(tier) if g.gid.startswith("B.mzd_mul.3x30x20.null")]
    for g in mu:
        for cut in (0, 1, 100, 4096):
            gs.append(_clone(g, "host", {"CUTOFF": cut}, "cutoff%d" % cut))
    # unbounded: Strassen orchestration for every cutoff (and any default cutoff)
    gs += layer_s.strassen_groups(["C12"])
    # the block-recursive PLE is selected by the cache-derived cutoff: its compression step under the stage contract (whole-word regime)
    from checks import C13, carriers
    gs += carriers.pick(C13.compress_groups(tier), ".196x258.", ".80x128.", prop="C12")
    # the pivot-bit read of the multi-table row update for every table parameter k up to 64 (cut-point obligation, k symbolic)
    from checks import alg
    gs += alg.prows_cut_groups(tier, props=("C12", "C02", "C11"))
    return with_canaries(gs)
