"""C07 -- kernel (layer B: bounded functional checks against spec-side linear algebra; see checks/alg.py)."""
from vplib.core import with_canaries
from checks import alg, layer_s

LEVEL = "model_checking"
META = {"explanation": "bounded functional: one concrete (small) shape per group, every bit pattern of the operands; loop bounds found by unwinding refinement and confirmed by unwinding assertions; compared with spec-side linear algebra (contracts/alg_spec.h) that shares no code with the library",
        "assumptions": ["orchestration for all shapes and ranks (layer S): shapes, window containment, index ranges of the bit accessors, result header and release of every temporary only", "mzd_pluq replaced by the library's own _mzd_pluq_naive (harness-level -D substitution when compiling solve.c)"]}


def _carriers(tier):
    # the PLE underneath the kernel starts from mzd_first_zero_row: its observer contract
    from checks import C17, carriers
    return carriers.pick(C17.obs_groups(tier), "K.mzd_first_zero_row.", prop="C07")


def groups(tier, seed):
    return with_canaries(alg.c07(tier)) + with_canaries([g for g in layer_s.solve_groups(["C07", "C06", "C09", "C11"]) if g.function == "mzd_kernel_left_pluq"]) + _carriers(tier)
