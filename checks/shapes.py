"""Shape helpers: one concrete geometry per CBMC instance (contents stay symbolic)."""


def even(n):
    return n if n % 2 == 0 else n + 1


def mat(nr, nc, kind, prefix=""):
    """defines for VP_MAT_SETUP: kinds  owned | view0 (window at word offset 0) | view1 (odd word offset) | view2"""
    w = (nc + 63) // 64
    if kind == "owned":
        d = dict(NR=nr, NC=nc, PR=nr, PRS=even(max(w, 1)), R0=0, W0=0, WIN=0)
    elif kind == "view0":
        d = dict(NR=nr, NC=nc, PR=nr + 2, PRS=even(w + 1), R0=1, W0=0, WIN=1)
    elif kind == "view1":
        d = dict(NR=nr, NC=nc, PR=nr + 2, PRS=even(w + 2), R0=1, W0=1, WIN=1)
    elif kind == "view2":
        d = dict(NR=nr, NC=nc, PR=nr + 1, PRS=even(w + 3), R0=0, W0=2, WIN=1)
    else:
        raise ValueError(kind)
    return {prefix + k: v for k, v in d.items()}


def shape_str(d, prefix=""):
    g = lambda k: d[prefix + k]
    return "%s%dx%d %s rs=%d r0=%d w0=%d" % (prefix, g("NR"), g("NC"), "window" if g("WIN") else "owned", g("PRS"), g("R0"), g("W0"))


KINDS = ["owned", "view0", "view1"]
