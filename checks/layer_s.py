"""Layer S groups: orchestration functions under shape contracts, all sizes symbolic (unbounded)."""
from vplib.core import Group

ALL_TUS = ["mzd", "mmc", "misc", "graycode", "brilliantrussian", "mzp", "ple", "ple_russian", "triangular", "triangular_russian", "echelonform", "solve", "io", "djb", "debug_dump", "mp"]


def strassen_groups(props):
    gs = []
    common = ["mzd_init", "mzd_init_window", "mzd_free", "mzd_copy", "_mzd_mul_m4rm", "mzd_addmul_m4rm", "_mzd_add"]
    spec = {
        "MUL_EVEN": ("_mzd_mul_even", ["_mzd_mul_even"], common + ["mzd_mul"]),
        "ADDMUL_EVEN": ("_mzd_addmul_even", ["_mzd_addmul_even"], common + ["_mzd_mul_even"]),
        "SQR_EVEN": ("_mzd_sqr_even", ["_mzd_sqr_even"], common + ["_mzd_mul_even", "mzd_mul"]),
        "ADDSQR_EVEN": ("_mzd_addsqr_even", ["_mzd_addsqr_even"], common + ["_mzd_mul_even", "_mzd_addmul_even", "_mzd_sqr_even"]),
    }
    fam = ["_mzd_mul_even", "_mzd_addmul_even", "_mzd_sqr_even", "_mzd_addsqr_even", "_mzd_addmul", "mzd_mul", "mzd_addmul"]
    for name, (fn, rec, repl) in spec.items():
        gs.append(Group(gid="S." + fn, props=list(props), harness="s_strassen.c", function=fn, layer="S", defines={"H_" + name: None},
                        tus=["misc"] + ["/verif/stubs/libm_any.c"], native_tus=[], enforce_rec=rec, replace=repl, loop_contracts=True, remove_bodies=[f for f in fam if f != fn and f not in repl],
                        object_bits=12, bounded=False, bound_note="(all dimensions and the cutoff symbolic; loop closed by invariant)", timeout=1500, mem_gb=24, slots=3))
    for name, fn in (("MUL", "mzd_mul"), ("ADDMUL", "mzd_addmul")):
        gs.append(Group(gid="S." + fn, props=list(props), harness="s_strassen.c", function=fn, layer="S", defines={"H_" + name: None},
                        tus=["misc"] + ["/verif/stubs/libm_any.c"], native_tus=[], enforce=[fn],
                        replace=["mzd_init", "_mzd_mul_even", "_mzd_sqr_even", "_mzd_addmul_even", "_mzd_addsqr_even"], object_bits=12, bounded=False,
                        bound_note="(all dimensions and the cutoff symbolic; default cutoff arbitrary via the libm stub)", timeout=900, mem_gb=16, slots=2))
    return gs


def tri_groups(props):
    """triangular.c: the four block-recursive TRSM routines, the inversion-based variant and the recursive triangular inversion"""
    gs = []
    win = ["mzd_init_window", "mzd_free"]
    spec = {
        "UR": ("_mzd_trsm_upper_right", win + ["_mzd_trsm_upper_right_base", "_mzd_trsm_upper_right_trtri", "mzd_addmul"], False),
        "LR": ("_mzd_trsm_lower_right", win + ["_mzd_trsm_lower_right_base", "mzd_addmul"], False),
        "LL": ("_mzd_trsm_lower_left", win + ["_mzd_trsm_lower_left_russian", "mzd_addmul"], False),
        "UL": ("_mzd_trsm_upper_left", win + ["_mzd_trsm_upper_left_russian", "_mzd_addmul"], False),
        "TRTRI": ("mzd_trtri_upper", win + ["mzd_trtri_upper_russian", "_mzd_trsm_upper_left", "_mzd_trsm_upper_right"], False),
        "UR_TRTRI": ("_mzd_trsm_upper_right_trtri", ["mzd_extract_u", "mzd_trtri_upper", "mzd_mul", "mzd_copy", "mzd_free"], True),
    }
    fam = ["mzd_trsm_upper_right", "mzd_trsm_lower_right", "mzd_trsm_lower_left", "mzd_trsm_upper_left", "_mzd_trsm_upper_right", "_mzd_trsm_lower_right", "_mzd_trsm_lower_left",
           "_mzd_trsm_upper_left", "mzd_trtri_upper", "_mzd_trsm_upper_right_trtri", "_mzd_trsm_upper_right_base", "_mzd_trsm_lower_right_base", "_mzd_trsm_pack", "_mzd_trsm_unpack"]
    for name, (fn, repl, ghost) in spec.items():
        d = {"H_" + name: None}
        if ghost:
            d["VP_TRI_GHOST"] = None
        rec = fn != "_mzd_trsm_upper_right_trtri"
        gs.append(Group(gid="S." + fn, props=list(props), harness="s_tri.c", function=fn, layer="S", defines=d, tus=["misc", "/verif/stubs/libm_any.c"], native_tus=[],
                        enforce_rec=[fn] if rec else [], enforce=[] if rec else [fn], replace=repl, remove_bodies=[f for f in fam if f != fn and f not in repl],
                        unwindset=({"%s%s.%d" % (fn, sfx, n): 1 for sfx in ("", "_wrapped_for_contract_checking") for n in range(3)} if name in ("LL", "UL") else {}),
                        object_bits=12, bounded=False,
                        bound_note="(all dimensions and the cutoff symbolic; the data loops of the order <= 64 base case are outside the assumed regime and decided in layer B)",
                        timeout=900, mem_gb=16, slots=2))
    return gs
