"""Layer S groups: orchestration functions under shape contracts, all sizes symbolic (unbounded)."""
from vplib.core import Group

ALL_TUS = ["mzd", "mmc", "misc", "graycode", "brilliantrussian", "mzp", "ple", "ple_russian", "triangular", "triangular_russian", "echelonform", "solve", "io", "djb", "debug_dump", "mp"]


def strassen_groups(props):
    gs = []
    common = ["mzd_init", "mzd_init_window", "mzd_free", "mzd_copy", "_mzd_mul_m4rm", "mzd_addmul_m4rm", "_mzd_add"]
    spec = {
        "MUL_EVEN": ("_mzd_mul_even", ["_mzd_mul_even"], common + ["mzd_mul"]),
        "ADDMUL_EVEN": ("_mzd_addmul_even", ["_mzd_addmul_even"], common + ["_mzd_mul_even"]),
        "SQR_EVEN": ("_mzd_sqr_even", ["_mzd_sqr_even"], common + ["_mzd_mul_even", "mzd_mul"]),
        "ADDSQR_EVEN": ("_mzd_addsqr_even", ["_mzd_addsqr_even"], common + ["_mzd_mul_even", "_mzd_addmul_even", "_mzd_sqr_even"]),
    }
    fam = ["_mzd_mul_even", "_mzd_addmul_even", "_mzd_sqr_even", "_mzd_addsqr_even", "_mzd_addmul", "mzd_mul", "mzd_addmul"]
    for name, (fn, rec, repl) in spec.items():
        gs.append(Group(gid="S." + fn, props=list(props), harness="s_strassen.c", function=fn, layer="S", defines={"H_" + name: None},
                        tus=["misc"] + ["/verif/stubs/libm_any.c"], native_tus=[], enforce_rec=rec, replace=repl, loop_contracts=True, remove_bodies=[f for f in fam if f != fn and f not in repl],
                        object_bits=12, bounded=False, bound_note="(all dimensions and the cutoff symbolic; loop closed by invariant)", timeout=1500, mem_gb=24, slots=3))
    for name, fn in (("MUL", "mzd_mul"), ("ADDMUL", "mzd_addmul")):
        gs.append(Group(gid="S." + fn, props=list(props), harness="s_strassen.c", function=fn, layer="S", defines={"H_" + name: None},
                        tus=["misc"] + ["/verif/stubs/libm_any.c"], native_tus=[], enforce=[fn],
                        replace=["mzd_init", "_mzd_mul_even", "_mzd_sqr_even", "_mzd_addmul_even", "_mzd_addsqr_even"], object_bits=12, bounded=False,
                        bound_note="(all dimensions and the cutoff symbolic; default cutoff arbitrary via the libm stub)", timeout=900, mem_gb=16, slots=2))
    return gs


def tri_groups(props):
    """triangular.c: the four block-recursive TRSM routines, the inversion-based variant and the recursive triangular inversion"""
    gs = []
    win = ["mzd_init_window", "mzd_free"]
    spec = {
        "UR": ("_mzd_trsm_upper_right", win + ["_mzd_trsm_upper_right_base", "_mzd_trsm_upper_right_trtri", "mzd_addmul"], False),
        "LR": ("_mzd_trsm_lower_right", win + ["_mzd_trsm_lower_right_base", "mzd_addmul"], False),
        "LL": ("_mzd_trsm_lower_left", win + ["_mzd_trsm_lower_left_russian", "mzd_addmul"], False),
        "UL": ("_mzd_trsm_upper_left", win + ["_mzd_trsm_upper_left_russian", "_mzd_addmul"], False),
        "TRTRI": ("mzd_trtri_upper", win + ["mzd_trtri_upper_russian", "_mzd_trsm_upper_left", "_mzd_trsm_upper_right"], False),
        "UR_TRTRI": ("_mzd_trsm_upper_right_trtri", ["mzd_extract_u", "mzd_trtri_upper", "mzd_mul", "mzd_copy", "mzd_free"], True),
        # the checked public wrappers: conforming operands reach the worker, nothing else happens
        "LL_W": ("mzd_trsm_lower_left", ["_mzd_trsm_lower_left"], False), "UL_W": ("mzd_trsm_upper_left", ["_mzd_trsm_upper_left"], False),
        "UR_W": ("mzd_trsm_upper_right", ["_mzd_trsm_upper_right"], False), "LR_W": ("mzd_trsm_lower_right", ["_mzd_trsm_lower_right"], False),
    }
    fam = ["mzd_trsm_upper_right", "mzd_trsm_lower_right", "mzd_trsm_lower_left", "mzd_trsm_upper_left", "_mzd_trsm_upper_right", "_mzd_trsm_lower_right", "_mzd_trsm_lower_left",
           "_mzd_trsm_upper_left", "mzd_trtri_upper", "_mzd_trsm_upper_right_trtri", "_mzd_trsm_upper_right_base", "_mzd_trsm_lower_right_base", "_mzd_trsm_pack", "_mzd_trsm_unpack"]
    for name, (fn, repl, ghost) in spec.items():
        d = {"H_" + name: None}
        if ghost:
            d["VP_TRI_GHOST"] = None
        rec = fn != "_mzd_trsm_upper_right_trtri" and not name.endswith("_W")
        gs.append(Group(gid="S." + fn, props=list(props), harness="s_tri.c", function=fn, layer="S", defines=d, tus=["misc", "/verif/stubs/libm_any.c"], native_tus=[],
                        enforce_rec=[fn] if rec else [], enforce=[] if rec else [fn], replace=repl, remove_bodies=[f for f in fam if f != fn and f not in repl],
                        unwindset=({"%s%s.%d" % (fn, sfx, n): 1 for sfx in ("", "_wrapped_for_contract_checking") for n in range(3)} if name in ("LL", "UL") else {}),
                        object_bits=12, bounded=False,
                        bound_note="(all dimensions and the cutoff symbolic; the data loops of the order <= 64 base case are outside the assumed regime and decided in layer B)",
                        timeout=900, mem_gb=16, slots=2))
    return gs


ACC = ["mzd_read_bits", "mzd_xor_bits", "mzd_clear_bits", "mzd_write_bit"]


def solve_groups(props):
    """solve.c: PLUQ solve (wrapper + worker), the factor-and-solve front end and the kernel"""
    gs = []
    win = ["mzd_init_window", "mzd_free"]
    spec = {
        "PLUQ_SOLVE": ("_mzd_pluq_solve_left", win + ACC + ["mzd_apply_p_left", "mzd_apply_p_left_trans", "mzd_trsm_lower_left", "mzd_trsm_upper_left", "mzd_is_zero", "mzd_set_ui", "mzd_addmul"]),
        "PLUQ_SOLVE_W": ("mzd_pluq_solve_left", ["_mzd_pluq_solve_left"]),
        "SOLVE": ("_mzd_solve_left", win + ["mzd_is_zero", "mzp_init", "mzp_free", "_mzd_pluq", "mzd_pluq_solve_left"]),
        "KERNEL": ("mzd_kernel_left_pluq", win + ACC + ["mzd_init", "mzp_init", "mzp_free", "mzd_pluq", "mzd_trsm_upper_left", "mzd_apply_p_left_trans"]),
    }
    fam = ["mzd_solve_left", "mzd_pluq_solve_left", "_mzd_pluq_solve_left", "_mzd_solve_left", "mzd_kernel_left_pluq"]
    for name, (fn, repl) in spec.items():
        gs.append(Group(gid="S." + fn, props=list(props), harness="s_solve.c", function=fn, layer="S", defines={"H_" + name: None}, tus=["misc", "/verif/stubs/libm_any.c"], native_tus=[],
                        enforce=[fn], replace=repl, loop_contracts=True, remove_bodies=[f for f in fam if f != fn and f not in repl], object_bits=12, bounded=False,
                        bound_note="(all dimensions, the rank, the cutoff and the flags symbolic; loops closed by inserted invariants, bit accessors by index-range contracts)",
                        timeout=900, mem_gb=16, slots=2))
    return gs


def ech_groups(props):
    """echelonform.c: mzd_echelonize_pluq, full reduction"""
    repl = ["mzd_init_window", "mzd_free", "mzp_init", "mzp_free", "mzd_pluq", "mzd_ple", "mzd_trsm_upper_left", "mzd_submatrix", "mzd_copy", "mzd_set_ui", "mzd_apply_p_right"] + ACC
    return [Group(gid="S.mzd_echelonize_pluq", props=list(props), harness="s_ech.c", function="mzd_echelonize_pluq", layer="S", defines={"H_ECH_PLUQ": None},
                  tus=["misc", "/verif/stubs/libm_any.c"], native_tus=[], enforce=["mzd_echelonize_pluq"], replace=repl, remove_bodies=["mzd_echelonize", "mzd_echelonize_m4ri"],
                  object_bits=12, bounded=False, bound_note="(all dimensions and the rank symbolic; full reduction only)", timeout=900, mem_gb=16, slots=2)]


def front_groups(props):
    """ple.c: PLUQ on top of PLE and the two checked wrappers; brilliantrussian.c: the Four-Russians inversion front end"""
    gs = []
    ple_fam = ["mzd_ple", "mzd_pluq", "_mzd_pluq", "_mzd_ple", "_mzd_pluq_naive", "_mzd_ple_naive"]
    br_fam = ["_mzd_gauss_submatrix_full", "_mzd_gauss_submatrix", "_mzd_gauss_submatrix_top", "_mzd_copy_back_rows", "mzd_make_table", "_mzd_echelonize_m4ri", "_mzd_top_echelonize_m4ri",
              "mzd_inv_m4ri", "mzd_mul_m4rm", "mzd_addmul_m4rm", "_mzd_mul_m4rm", "mzd_echelonize_m4ri", "mzd_top_echelonize_m4ri", "mzd_process_rows", "mzd_process_rows2", "mzd_process_rows3",
              "mzd_process_rows4", "mzd_process_rows5", "mzd_process_rows6"]
    spec = {
        "PLUQ": ("_mzd_pluq", ["_mzd_ple", "mzd_init_window", "mzd_free", "mzd_apply_p_right_trans_tri"], ple_fam),
        "PLUQ_W": ("mzd_pluq", ["_mzd_pluq"], ple_fam),
        "PLE_W": ("mzd_ple", ["_mzd_ple"], ple_fam),
        "INV": ("mzd_inv_m4ri", ["mzd_init", "mzd_init_window", "mzd_free", "mzd_copy", "mzd_set_ui", "mzd_echelonize_m4ri"], br_fam),
    }
    for name, (fn, repl, fam) in spec.items():
        gs.append(Group(gid="S." + fn, props=list(props), harness="s_front.c", function=fn, layer="S", defines={"H_" + name: None}, tus=["misc", "/verif/stubs/libm_any.c"], native_tus=[],
                        enforce=[fn], replace=repl, remove_bodies=[f for f in fam if f != fn and f not in repl], object_bits=12, bounded=False,
                        bound_note="(all dimensions symbolic)", timeout=900, mem_gb=16, slots=2))
    return gs


def ech0_groups(props):
    """echelonform.c: mzd_echelonize_pluq without full reduction (ghost-index family)"""
    repl = ["mzd_init_window", "mzd_free", "mzp_init", "mzp_free", "mzd_ple", "mzd_set_ui", "mzd_clear_bits", "mzd_write_bit"]
    return [Group(gid="S.mzd_echelonize_pluq.full0", props=list(props), harness="s_ech0.c", function="mzd_echelonize_pluq", layer="S", defines={},
                  tus=["misc", "/verif/stubs/libm_any.c"], native_tus=[], enforce=["mzd_echelonize_pluq"], replace=repl, loop_contracts=True, remove_bodies=["mzd_echelonize", "mzd_echelonize_m4ri"],
                  object_bits=12, bounded=False, bound_note="(all dimensions and the rank symbolic; full == 0; loops closed by invariants; permutation entry range at a ghost index)",
                  timeout=900, mem_gb=16, slots=2)]
