"""Layer S groups: orchestration functions under shape contracts, all sizes symbolic (unbounded)."""
from vplib.core import Group

ALL_TUS = ["mzd", "mmc", "misc", "graycode", "brilliantrussian", "mzp", "ple", "ple_russian", "triangular", "triangular_russian", "echelonform", "solve", "io", "djb", "debug_dump", "mp"]


def strassen_groups(props):
    gs = []
    common = ["mzd_init", "mzd_init_window", "mzd_free", "mzd_copy", "_mzd_mul_m4rm", "mzd_addmul_m4rm", "_mzd_add"]
    spec = {
        "MUL_EVEN": ("_mzd_mul_even", ["_mzd_mul_even"], common + ["mzd_mul"]),
        "ADDMUL_EVEN": ("_mzd_addmul_even", ["_mzd_addmul_even"], common + ["_mzd_mul_even"]),
        "SQR_EVEN": ("_mzd_sqr_even", ["_mzd_sqr_even"], common + ["_mzd_mul_even", "mzd_mul"]),
        "ADDSQR_EVEN": ("_mzd_addsqr_even", ["_mzd_addsqr_even"], common + ["_mzd_mul_even", "_mzd_addmul_even", "_mzd_sqr_even"]),
    }
    fam = ["_mzd_mul_even", "_mzd_addmul_even", "_mzd_sqr_even", "_mzd_addsqr_even", "_mzd_addmul", "mzd_mul", "mzd_addmul"]
    for name, (fn, rec, repl) in spec.items():
        gs.append(Group(gid="S." + fn, props=list(props), harness="s_strassen.c", function=fn, layer="S", defines={"H_" + name: None},
                        tus=["misc"] + ["/verif/stubs/libm_any.c"], native_tus=[], enforce_rec=rec, replace=repl, loop_contracts=True, remove_bodies=[f for f in fam if f != fn and f not in repl],
                        object_bits=12, bounded=False, bound_note="(all dimensions and the cutoff symbolic; loop closed by invariant)", timeout=1500, mem_gb=24, slots=3))
    for name, fn in (("MUL", "mzd_mul"), ("ADDMUL", "mzd_addmul")):
        gs.append(Group(gid="S." + fn, props=list(props), harness="s_strassen.c", function=fn, layer="S", defines={"H_" + name: None},
                        tus=["misc"] + ["/verif/stubs/libm_any.c"], native_tus=[], enforce=[fn],
                        replace=["mzd_init", "_mzd_mul_even", "_mzd_sqr_even", "_mzd_addmul_even", "_mzd_addsqr_even"], object_bits=12, bounded=False,
                        bound_note="(all dimensions and the cutoff symbolic; default cutoff arbitrary via the libm stub)", timeout=900, mem_gb=16, slots=2))
    return gs
