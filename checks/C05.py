"""C05 -- inversion (layer B: bounded functional checks against spec-side linear algebra; see checks/alg.py)."""
from vplib.core import with_canaries
from checks import alg, layer_s

LEVEL = "model_checking"
META = {"explanation": "bounded functional: one concrete (small) shape per group, every bit pattern of the operands; loop bounds found by unwinding refinement and confirmed by unwinding assertions; compared with spec-side linear algebra (contracts/alg_spec.h) that shares no code with the library",
        "assumptions": ['functional clause: n <= 4', 'recursive triangular inversion: shape / window / header-balance contract only (layer S, all orders symbolic)']}


def _carriers(tier):
    # mzd_invert_naive cuts the inverse out of [A | I] with mzd_submatrix (unaligned column offset): its contract at offset classes 1,3
    from checks import C08, carriers
    return carriers.pick(C08.move_groups(tier), "K.mzd_submatrix.2x61-at-1,3", "K.mzd_submatrix.2x64-at-1,3", prop="C05")


def groups(tier, seed):
    return with_canaries(alg.c05(tier)) + with_canaries([g for g in layer_s.tri_groups(["C05", "C04", "C11"]) if g.function == "mzd_trtri_upper"]) + with_canaries([g for g in layer_s.front_groups(["C05", "C11"]) if g.function == "mzd_inv_m4ri"]) + _carriers(tier)
