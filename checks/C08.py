"""C08 -- addition and data movement (layer K, bounded shapes, symbolic contents)."""
from vplib.core import Group, with_canaries
from checks.shapes import mat, shape_str

LEVEL = "model_checking"
META = {"explanation": "bounded model checking of enforced function contracts (cell-wise specs, frame on the destination's whole block, operands unchanged, zero padding of allocated results)"}
TUS = ["mzd", "mmc", "misc", "graycode"]
FN = {"ADD": "mzd_add", "_ADD": "_mzd_add", "COPY": "mzd_copy", "SET_UI": "mzd_set_ui", "SUBMATRIX": "mzd_submatrix", "CONCAT": "mzd_concat", "STACK": "mzd_stack",
      "EXTRACT_U": "mzd_extract_u", "EXTRACT_L": "mzd_extract_l", "TRANSPOSE": "mzd_transpose", "TRANSPOSE2": "mzd_transpose o mzd_transpose"}


def move_groups(tier, props=("C08", "C09", "C10", "C11")):
    gs = []
    q = tier == "quick"

    def add(mode, defs, tag, unwind, timeout=300, slots=1, mem=12):
        dd = dict(defs)
        dd["H_" + mode] = None
        # results allocated by the call and the transposes run in assert mode (same REQ_/ENS_ text; dfcc's write-set
        # instrumentation of the allocator paths was measured > 10 min even for 3x3)
        am = ("DNULL" in dd) or mode in ("TRANSPOSE", "TRANSPOSE2")
        gs.append(Group(gid="K.%s.%s" % (FN[mode].split(" ")[0] + ("2" if mode == "TRANSPOSE2" else ""), tag), props=list(props), harness="k_move.c", function=FN[mode], layer="K",
                        defines=dd, tus=TUS, enforce=[FN[mode]] if mode != "TRANSPOSE2" else [], assert_mode=am, solver=("--sat-solver cadical" if am else None), unwind=unwind, bounded=True, bound_note="shape " + tag, shape=tag,
                        timeout=timeout if q else 4 * timeout, slots=slots, mem_gb=mem))

    def m3(nr, nc, kd, ka, kb):
        d = {}
        if kd is None:
            d["DNULL"] = None
        else:
            d.update(mat(nr, nc, kd, "D_"))
        d.update(mat(nr, nc, ka, "A_"))
        if kb is not None:
            d.update(mat(nr, nc, kb, "B_"))
        return d

    # ---- addition: every width-specialised case 1..8 and the default loop (SSE body, both tails) ----
    widths = [1, 2, 3, 4, 5, 6, 7, 8, 9, 11] if q else list(range(1, 14)) + [16, 19]
    for w in widths:
        for nc in ([64 * w - 3] if q else [64 * w - 63, 64 * w - 3, 64 * w]):
            combos = [("view1", "owned", "view0")] if q else [("owned", "owned", "owned"), ("view1", "owned", "view0"), ("view0", "view1", "view1")]
            for kd, ka, kb in combos:
                add("_ADD", m3(2, nc, kd, ka, kb), "2x%d.%s-%s-%s" % (nc, kd, ka, kb), unwind=w + 8)
    for nc in (60, 128, 190, 640):
        add("_ADD", m3(2, nc, "owned", "owned", "owned"), "2x%d.owned-owned-owned" % nc, unwind=(nc + 63) // 64 + 8)
    for alias in (1, 2, 3, 4):
        for nc in ((70, 380) if q else (1, 64, 70, 200, 380, 600, 700)):
            for k in ("owned", "view1"):
                d = m3(2, nc, k if alias == 3 else None, k, k)
                d.pop("DNULL", None)
                d["ALIAS"] = alias
                add("_ADD", d, "2x%d.alias%d.%s" % (nc, alias, k), unwind=(nc + 63) // 64 + 8)
    for nc in (70, 130, 380):
        add("ADD", m3(2, nc, None, "view1", "owned"), "2x%d.null-view1-owned" % nc, unwind=20)
    add("ADD", m3(2, 70, "view1", "owned", "view0"), "2x70.view1-owned-view0", unwind=20)

    # ---- copy ----
    for nc in ([1, 64, 70, 130, 200] if q else [1, 2, 63, 64, 65, 70, 128, 130, 192, 200, 300]):
        for kd, ka in ((None, "view1"), ("view1", "owned"), ("owned", "view0")):
            add("COPY", m3(3, nc, kd, ka, None), "3x%d.%s-%s" % (nc, kd or "null", ka), unwind=20)
    # destination larger than the source
    for (snr, snc, dnr, dnc) in ((2, 70, 3, 130), (2, 64, 2, 100), (1, 10, 3, 20)):
        for kd in ("owned", "view1"):
            d = {**mat(dnr, dnc, kd, "D_"), **mat(snr, snc, "owned", "A_")}
            add("COPY", d, "%dx%d-into-%dx%d.%s" % (snr, snc, dnr, dnc, kd), unwind=20)

    # ---- set_ui ----
    for (nr, nc) in ((3, 3), (3, 70), (70, 3), (4, 130), (66, 66)):
        for k in ("owned", "view1"):
            add("SET_UI", mat(nr, nc, k, "A_"), "%dx%d.%s" % (nr, nc, k), unwind=max(nr, 4) + 4)

    # ---- submatrix: (lowc % 64, ncols % 64) classes, aligned memcpy path and unaligned read_bits path ----
    subs = [(0, 64), (0, 70), (0, 10), (64, 64), (64, 30), (3, 64), (3, 61), (3, 70), (60, 10), (60, 130), (1, 1), (63, 2)]
    if not q:
        subs += [(a, b) for a in (0, 1, 31, 63, 64, 65) for b in (1, 63, 64, 65, 128, 129)]
    for lowc, snc in sorted(set(subs)):
        src_nc = lowc + snc + 5
        for kd, ka in ((None, "owned"), ("view1", "view0"), ("owned", "view1")):
            d = {**mat(4, src_nc, ka, "A_"), "LOWR": 1, "LOWC": lowc, "SUB_NR": 2, "SUB_NC": snc}
            if kd is None:
                d["DNULL"] = None
            else:
                d.update(mat(2, snc, kd, "D_"))
            add("SUBMATRIX", d, "2x%d-at-1,%d-of-4x%d.%s-%s" % (snc, lowc, src_nc, kd or "null", ka), unwind=max(12, (snc + 63) // 64 + 6))

    # ---- concat / stack ----
    for (anc, bnc) in ((3, 2), (64, 64), (70, 10), (10, 70), (60, 130)):
        for kd, ka, kb in ((None, "view1", "owned"), ("view1", "owned", "view0"), ("owned", "view0", "view1")):
            d = {**mat(2, anc, ka, "A_"), **mat(2, bnc, kb, "B_")}
            if kd is None:
                d["DNULL"] = None
            else:
                d.update(mat(2, anc + bnc, kd, "D_"))
            add("CONCAT", d, "2x%d+2x%d.%s-%s-%s" % (anc, bnc, kd or "null", ka, kb), unwind=max(bnc, 12) + 4)
    for (nc, anr, bnr) in ((3, 1, 2), (64, 2, 1), (70, 2, 2), (130, 1, 1)):
        for kd, ka, kb in ((None, "view1", "owned"), ("view1", "owned", "view0"), ("owned", "view0", "view1")):
            d = {**mat(anr, nc, ka, "A_"), **mat(bnr, nc, kb, "B_")}
            if kd is None:
                d["DNULL"] = None
            else:
                d.update(mat(anr + bnr, nc, kd, "D_"))
            add("STACK", d, "%dx%d;%dx%d.%s-%s-%s" % (anr, nc, bnr, nc, kd or "null", ka, kb), unwind=12)

    # ---- extract_u / extract_l ----
    for (nr, nc) in ((3, 3), (5, 70), (70, 5), (66, 66), (64, 64)) if q else ((3, 3), (5, 70), (70, 5), (66, 66), (64, 64), (65, 130), (130, 65)):
        k = min(nr, nc)
        for kd, ka in ((None, "view1"), ("view1", "owned")):
            d = mat(nr, nc, ka, "A_")
            if kd is None:
                d["DNULL"] = None
            else:
                d.update(mat(k, k, kd, "D_"))
            for mode in ("EXTRACT_U", "EXTRACT_L"):
                add(mode, d, "%dx%d.%s-%s" % (nr, nc, kd or "null", ka), unwind=max(nr, k, 8) + 6, timeout=600)

    # ---- transpose: every size class of the kernels ----
    tshapes = [(1, 1), (3, 5), (8, 8), (7, 12), (16, 16), (9, 30), (32, 32), (33, 50), (64, 64), (3, 130), (17, 65), (65, 17), (64, 70), (70, 64), (70, 70), (1, 200), (200, 1)]
    # leftover-strip classes of the 64-block kernels (lt64x64: leftover rows 1,2,3-4,5-8,9-16,17-32,33-63; 64xlt64: leftover columns)
    tshapes += [(1, 64), (2, 64), (3, 64), (5, 64), (9, 64), (17, 64), (33, 64), (64, 2), (64, 3), (64, 5), (64, 9), (64, 17), (64, 33), (66, 65)]
    if not q:
        tshapes += [(127, 128), (128, 128), (129, 130), (64, 192), (191, 65), (5, 513), (513, 3)]
    for (nr, nc) in tshapes:
        big = nr * nc > 3000
        combos = [(None, "owned")]
        if nr * nc <= 4500:
            combos += [("owned", "owned"), ("view1", "owned")]
        for kd, ka in combos:
            d = mat(nr, nc, ka, "A_")
            if kd is None:
                d["DNULL"] = None
            else:
                d.update(mat(nc, nr, kd, "D_"))
            add("TRANSPOSE", d, "%dx%d.%s-%s" % (nr, nc, kd or "null", ka), unwind=max(nr, nc, 64) + 3, timeout=900 if big else 400, slots=2 if big else 1, mem=16)
    for (nr, nc) in ((3, 5), (17, 65), (64, 64), (66, 70)):
        d = {**mat(nr, nc, "owned", "A_"), "DNULL": None}
        add("TRANSPOSE2", d, "%dx%d" % (nr, nc), unwind=max(nr, nc, 64) + 3, timeout=900, slots=2, mem=16)
    return gs


def groups(tier, seed):
    return with_canaries(move_groups(tier))
