"""C02 -- echelon forms (layer B: bounded functional checks against spec-side linear algebra; see checks/alg.py)."""
from vplib.core import with_canaries
from checks import alg, layer_s

LEVEL = "model_checking"
META = {"explanation": "bounded functional: one concrete (small) shape per group, every bit pattern of the operands; loop bounds found by unwinding refinement and confirmed by unwinding assertions; compared with spec-side linear algebra (contracts/alg_spec.h) that shares no code with the library",
        "assumptions": ["mzd_echelonize_pluq (full reduction): shape / window / header-balance contract for all dimensions and ranks only (layer S); its algebra is not decided", 'recursive/large regimes (M4RI block loop beyond 3x5, PLUQ-based route) not reached in the quick tier']}


def _carriers(tier):
    # pivot search of the M4RI / PLE routes (mzd_find_pivot) under its observer contract
    from checks import C17, carriers
    return carriers.pick(C17.obs_groups(tier), "K.mzd_find_pivot.2x130.", prop="C02")


def groups(tier, seed):
    return with_canaries(alg.c02(tier)) + with_canaries(layer_s.ech_groups(["C02", "C09", "C11"])) + with_canaries(layer_s.ech0_groups(["C02", "C11"])) + _carriers(tier)
