"""C20 -- allocation failure always ends in the controlled abort (failing allocator in every harness)."""
import os
import re
from vplib.core import Group, with_canaries, REPO

LEVEL = "proof"
META = {"explanation": "every allocation wrapper / allocating routine is verified with an allocator that may fail at every call (cbmc --malloc-may-fail --malloc-fail-null): it either does not return (m4ri_die) or returns complete objects; all other allocation sites are shown syntactically to go through those wrappers, so a failure at any position i of any scenario is covered without enumerating i",
        "assumptions": ["m4ri_die is taken by its body: vfprintf + abort; abort() does not return (CBMC model)",
                        "posix_memalign/_mm_malloc follow CBMC's library model (may fail)"]}
P = ["C20"]
WRAPPERS = {"m4ri_mm_malloc", "m4ri_mm_calloc", "m4ri_mm_malloc_aligned", "m4ri_mmc_malloc", "m4ri_mmc_calloc"}
RAW = re.compile(r"\b(malloc|calloc|realloc|posix_memalign|_mm_malloc|aligned_alloc|strdup)\s*\(")


def _functions(blank):
    """[(name, body_start, body_end)] of all function definitions in a blanked translation unit"""
    from vplib.loopins import _match
    res = []
    depth = 0
    i, n = 0, len(blank)
    # positions at brace depth 0
    depth_at = []
    d = 0
    for ch in blank:
        depth_at.append(d)
        if ch == "{":
            d += 1
        elif ch == "}":
            d -= 1
    for m in re.finditer(r"\b([A-Za-z_]\w*)\s*\(", blank):
        if depth_at[m.start()] != 0:
            continue
        close = _match(blank, m.end() - 1, "(", ")")
        if close < 0:
            continue
        k = close + 1
        while k < n and blank[k] in " \t\r\n":
            k += 1
        if k < n and blank[k] == "{":
            end = _match(blank, k, "{", "}")
            if end > 0:
                res.append((m.group(1), k, end))
    return res


def scan_sites():
    """every raw allocation call in m4ri/*.c,*.h with the enclosing function"""
    from vplib.loopins import _blank
    sites = []
    src = os.path.join(REPO, "m4ri")
    for fn in sorted(os.listdir(src)):
        if not fn.endswith((".c", ".h")):
            continue
        txt = open(os.path.join(src, fn), errors="replace").read()
        b = _blank(txt)
        # drop preprocessor lines (e.g. "#define HAVE_MALLOC ...")
        b = re.sub(r"^[ \t]*#[^\n]*", lambda m: " " * len(m.group(0)), b, flags=re.M)
        funcs = _functions(b)
        for m in RAW.finditer(b):
            line = b.count("\n", 0, m.start()) + 1
            f = "?"
            for name, st, en in funcs:
                if st < m.start() < en:
                    f = name
            sites.append({"file": fn, "line": line, "call": m.group(1), "function": f})
    return sites


# functions whose raw allocation calls are individually verified by a harness below
VERIFIED_RAW = {"m4ri_mm_malloc": "MM_MALLOC", "m4ri_mm_calloc": "MM_CALLOC", "m4ri_mm_malloc_aligned": "MM_MALLOC_ALIGNED", "djb_init": "DJB_INIT",
                "djb_push_back": "DJB_PUSH", "heap_init": "HEAP", "heap_push": "HEAP", "heap_pop": "HEAP"}


def prepare(snap, tier):
    sites = scan_sites()
    bad = [s for s in sites if s["function"] not in VERIFIED_RAW]
    META["coverage_extra"] = {"raw_allocation_sites": sites, "raw_sites_outside_verified_functions": bad}
    if bad:
        from vplib.core import MachineryError
        raise MachineryError("C20: raw allocation call outside the verified wrappers: %s -- add a harness for it" % bad[:3])


def groups(tier, seed):
    gs = []

    def g(name, fn, tus, extra=None, unwind=20, timeout=600, bounded=False, note=""):
        d = {"H_" + name: None}
        if extra:
            d.update(extra)
        gs.append(Group(gid="F." + name.lower() + ("." + "_".join("%s%s" % kv for kv in sorted(extra.items())) if extra else ""), props=P, harness="c20.c", function=fn, layer="F",
                        defines=d, tus=tus, native_tus=[], unwind=unwind, malloc_may_fail=True, bounded=bounded, bound_note=note or "(no data loop; failing allocator)",
                        timeout=timeout, mem_gb=16))
    base = ["mmc", "misc", "graycode"]
    g("MM_MALLOC", "m4ri_mm_malloc", base)
    g("MM_MALLOC_ALIGNED", "m4ri_mm_malloc_aligned", base)
    g("MM_CALLOC", "m4ri_mm_calloc", base, unwind=70)
    g("MMC_MALLOC", "m4ri_mmc_malloc", base)
    g("MMC_CALLOC", "m4ri_mmc_calloc", base)
    g("HDR_MALLOC", "mzd_t_malloc", base)
    for r, c, used in ((3, 130, "0"), (1, 1, "0"), (0, 7, "0"), (2, 64, "0")):
        g("INIT", "mzd_init/mzd_init_window", base, extra={"RDIM": r, "CDIM": c, "USEDMASK": used}, bounded=True, note="%dx%d, header block %s" % (r, c, "empty" if used == "0" else "full"))
    g("MZP", "mzp_init/mzp_init_window/mzp_copy", base + ["mzp"], bounded=True, note="length<=8")
    g("DJB_INIT", "djb_init", base)
    g("DJB_PUSH", "djb_push_back", base)
    g("HEAP", "heap_init/heap_push/heap_pop", base + ["io"], unwind=12, bounded=True, note="5 pushes, 4 pops")
    g("PLE_TABLE", "ple_table_init", base + ["ple_russian", "mzp", "brilliantrussian", "triangular", "triangular_russian", "strassen", "ple", "echelonform", "io", "djb"], bounded=True, note="k<=3")
    for sc, fn in ((1, "mzd_transpose(NULL,.)"), (2, "mzd_copy(NULL,.)"), (3, "mzd_apply_p_right"), (4, "mzd_submatrix(NULL,..)"), (5, "mzd_concat(NULL,..)")):
        g("SCENARIO", fn, base + ["mzp"], extra={"SCEN": sc}, unwind=72, bounded=True, note="2x70 operand", timeout=900)
    return with_canaries(gs)
