"""C04 -- triangular solves (layer B: bounded functional checks against spec-side linear algebra; see checks/alg.py)."""
from vplib.core import with_canaries
from checks import alg, layer_s

LEVEL = "model_checking"
META = {"explanation": "bounded functional: one concrete (small) shape per group, every bit pattern of the operands; loop bounds found by unwinding refinement and confirmed by unwinding assertions; compared with spec-side linear algebra (contracts/alg_spec.h) that shares no code with the library",
        "assumptions": ['functional clause: base cases only (order <= 64); the Russian regime is not reached', 'recursive regime: shape / window-containment / header-balance contracts only (layer S, all dimensions symbolic); the algebra of the recursion is not decided', 'contract of _mzd_addmul for cutoff < 64 assumed (call-site form)']}


def groups(tier, seed):
    return with_canaries(alg.c04(tier)) + with_canaries(layer_s.tri_groups(["C04", "C05", "C09", "C11", "C12"]))
