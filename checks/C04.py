"""C04 -- triangular solves (layer B: bounded functional checks against spec-side linear algebra; see checks/alg.py)."""
from vplib.core import with_canaries
from checks import alg

LEVEL = "model_checking"
META = {"explanation": "bounded functional: one concrete (small) shape per group, every bit pattern of the operands; loop bounds found by unwinding refinement and confirmed by unwinding assertions; compared with spec-side linear algebra (contracts/alg_spec.h) that shares no code with the library",
        "assumptions": ['base cases only (n <= 64 rows of T); Russian and recursive regimes not reached']}


def groups(tier, seed):
    return with_canaries(alg.c04(tier))
