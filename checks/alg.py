"""Layer B groups for C02-C07 (elimination, PLE/PLUQ, TRSM, inversion, solve, kernel): small concrete shapes,
all operand bits symbolic, compared with spec-side linear algebra (contracts/alg_spec.h)."""
from vplib.core import Group, with_canaries
from checks.shapes import mat

TUS = ["mzd", "mmc", "misc", "graycode", "brilliantrussian", "strassen", "mzp", "ple", "ple_russian", "triangular", "triangular_russian", "echelonform", "io", "djb", "debug_dump", "mp", "solve", "@libm"]
NAIVE_PLUQ = ("-D_mzd_pluq(A,P,Q,c)=_mzd_pluq_naive(A,P,Q)", "-Dmzd_pluq(A,P,Q,c)=_mzd_pluq_naive(A,P,Q)")


def G(pid, mode, fn, m, n, props, kind="owned", bw=None, extra=None, timeout=900, tus=None, naive_pluq=False, slots=2, mem=16, config="host", supporting=False, unwind=1, note=""):
    d = {**mat(m, n, kind, "A_"), "M_": m, "N_": n, "H_" + mode: None, "VRMAX": max(m, n, 2) + (0), "VCMAX": max(m, n) + (bw or 0) + 1, "KMAXBUILD": 3}
    d.pop("A_NR"), d.pop("A_NC")
    if bw is not None:
        d["BW"] = bw
        if mode.startswith("TRSM"):
            rows, cols = (m, bw) if mode in ("TRSM_LL", "TRSM_UL") else (bw, m)
            b = mat(rows, cols, extra.pop("bkind", "owned") if extra else "owned", "B_")
            b.pop("B_NR"), b.pop("B_NC")
            d.update(b)
            d["VRMAX"] = max(m, rows, 2)
            d["VCMAX"] = max(m, cols, 2)
    if extra:
        d.update(extra)
    tag = "%dx%d%s.%s%s%s" % (m, n, (".bw%d" % bw) if bw is not None else "", kind, "".join(".%s%s" % (k.lower(), v) for k, v in sorted((extra or {}).items())), "" if config == "host" else "." + config)
    t = list(tus or TUS)
    if naive_pluq:
        # solve.c is compiled with _mzd_pluq / mzd_pluq substituted by the library's own naive routine (same certificate contract, see DESIGN.md C06)
        t = [x if x != "solve" else "solve|" + "|".join(NAIVE_PLUQ) for x in t]
    return Group(gid="B.%s.%s" % (mode.lower(), tag), props=list(props), harness="b_alg.c", function=fn, layer="B", defines=d,
                 tus=t, assert_mode=True, unwind=unwind, refine=True, spec_unwind=max(d["VRMAX"], d["VCMAX"], 6) + 2, config=config, bounded=True,
                 bound_note="shape %s, all operand bits symbolic%s%s" % (tag, "; _mzd_pluq replaced by the library's _mzd_pluq_naive (same certificate contract, see DESIGN.md C06)" if naive_pluq else "", note),
                 shape=tag, timeout=timeout, slots=max(slots, 2), mem_gb=mem, supporting=supporting, solver="portfolio",
                 extra_cflags=[], native_tus=t)


def prows_groups(tier, props=("C02", "C12", "C09", "C11")):
    """stage contracts of the M4RI elimination: mzd_process_rows (1 table, incl. the k == 1 path) and mzd_process_rows2..6"""
    from checks.shapes import shape_str
    gs = []
    q = tier == "quick"
    # (NT, K, nc, ccol, kind, rows lo, hi)
    cases = [(1, 1, 70, 3, "owned", 0, 3), (1, 1, 130, 64, "view1", 1, 3), (1, 3, 70, 60, "owned", 0, 3), (1, 5, 200, 70, "view1", 0, 2),
             (2, 2, 70, 5, "owned", 0, 3), (2, 5, 130, 62, "view1", 0, 3), (3, 3, 70, 0, "owned", 0, 3), (3, 7, 130, 60, "view1", 1, 3),
             (4, 4, 70, 10, "owned", 0, 3), (4, 9, 130, 61, "view1", 0, 2), (5, 5, 70, 1, "owned", 0, 3), (5, 11, 130, 58, "view0", 0, 2),
             (6, 6, 70, 20, "owned", 0, 3), (6, 13, 130, 57, "view1", 0, 2)]
    if not q:
        # measured: chunks of 9-10 bits (k = 33..40 with 4-6 tables, 512/1024-row tables) run out of memory; kept below that
        cases += [(2, 12, 200, 120, "view1", 0, 3), (3, 15, 200, 64, "owned", 0, 2), (4, 20, 130, 40, "owned", 0, 2), (6, 24, 130, 30, "owned", 0, 2)]
    # measured (and dropped): tables with concrete contents and identity maps (-DCONCTAB in k_prows.c) for chunks of 9 bits
    # (k = 18 with 2 tables, k = 34 with 4): out of memory at 24 GB / no verdict after 900 s either way
    conc = []
    for nt, k, nc, ccol, kind, lo, hi in cases + conc:
        d = mat(3, nc, kind)
        dd = dict(d)
        dd.update({"NT": nt, "KBITS": k, "CCOL": ccol, "ROW_LO": lo, "ROW_HI": hi})
        fn = "mzd_process_rows" + ("" if nt == 1 else str(nt))
        tag = "nt%d.k%d.3x%d.c%d.%s.rows%d-%d" % (nt, k, nc, ccol, kind, lo, hi)
        if (nt, k, nc, ccol, kind, lo, hi) in conc:
            dd["CONCTAB"] = None
            tag += ".conctab"
        maxrows = 1 << ((k + nt - 1) // nt + 1)
        gs.append(Group(gid="K.%s.%s" % (fn, tag), props=list(props), harness="k_prows.c", function=fn, layer="K", defines=dd, tus=TUS, assert_mode=True,
                        unwind=max(maxrows, 66) + 2, bounded=True, bound_note="shape " + tag, shape=tag, timeout=900, mem_gb=24 if k > 20 else 12, slots=2 if k > 20 else 1,
                        solver="--sat-solver cadical", cbmc_flags=["--arrays-uf-always"] if (k > 20 and "CONCTAB" not in dd) else [],
                        # several tables: the SSE2 _mzd_combine_N kernels with symbolic table-row pointers exhaust memory (measured, also in the design
                        # round); the multi-table variants are decided in the scalar configuration
                        config="host" if nt == 1 else "scalar"))
    return gs


def prows_cut_groups(tier, props=("C02", "C12", "C11")):
    """cut-point obligation of mzd_process_rows2..6 (harness k_prows_cut.c): the word the row loop splits into table indices is the
    k-cell field of the row for every k in NT..64 (k symbolic; no table is touched, so the table size is no limit)"""
    gs = []
    q = tier == "quick"
    # (NT, nc, kind, ccol, first row)
    cases = [(4, 130, "owned", 3, 0), (4, 200, "view1", 40, 1), (2, 130, "owned", 64, 0), (3, 130, "view1", 50, 0), (5, 200, "owned", 70, 2), (6, 130, "view1", 1, 1)]
    if not q:
        cases += [(nt, 200, kind, c, 0) for nt in (2, 3, 4, 5, 6) for kind in ("owned", "view1") for c in (0, 17, 63, 100, 127)]
    tus = [t + "|-DVP_CUT_READ" if t == "brilliantrussian" else t for t in TUS]
    for nt, nc, kind, ccol, r0 in cases:
        dd = dict(mat(3, nc, kind))
        dd.update({"NT": nt, "CCOL": ccol, "ROW0": r0})
        fn = "mzd_process_rows%d" % nt
        tag = "cut.nt%d.kany.3x%d.c%d.%s.row%d" % (nt, nc, ccol, kind, r0)
        gs.append(Group(gid="K.%s.%s" % (fn, tag), props=list(props), harness="k_prows_cut.c", function=fn, layer="K", defines=dd, tus=tus, assert_mode=True,
                        unwind=68, bounded=True, bound_note="shape " + tag + "; k symbolic over NT..64, all cells symbolic", shape=tag, timeout=600, mem_gb=8, slots=1, config="host"))
    return gs


def c02(tier):
    P = ("C02", "C10", "C12")
    gs = [G("C02", "ECH_NAIVE", "mzd_echelonize_naive", 3, 5, P, extra={"FULL": 1}), G("C02", "ECH_NAIVE", "mzd_echelonize_naive", 3, 5, P, kind="view1", extra={"FULL": 0}),
          G("C02", "ECH_NAIVE", "mzd_echelonize_naive", 4, 3, P, extra={"FULL": 0}, timeout=1200),
]
    if tier == "thorough":   # measured: out of memory at 16 GB even at 3x4 (the M4RI block loop); attempts with more memory
        gs += [G("C02", "TOP_ECH", "mzd_top_echelonize_m4ri", 3, 4, P, extra={"KPAR": 2}, timeout=3000, mem=40, slots=6),
               G("C02", "ECH_M4RI", "mzd_echelonize_m4ri", 3, 4, P, extra={"FULL": 1, "KPAR": 2}, timeout=3000, mem=40, slots=6)]
    gs += prows_groups(tier)
    gs += prows_cut_groups(tier)
    if tier == "thorough":
        gs += [G("C02", "ECH_M4RI", "mzd_echelonize_m4ri", 3, 5, P, extra={"FULL": 0, "KPAR": 1}, timeout=3600, slots=4),
               G("C02", "ECH_M4RI", "mzd_echelonize_m4ri", 3, 5, P, extra={"FULL": 1, "KPAR": 2}, timeout=3600, slots=4, config="scalar"),
               G("C02", "ECH_PLUQ", "mzd_echelonize_pluq", 2, 3, P, extra={"FULL": 1}, timeout=3600, slots=4),
               G("C02", "ECH_NAIVE", "mzd_echelonize_naive", 4, 6, P, extra={"FULL": 1}, timeout=3600)]
    return gs


def c03(tier):
    P = ("C03", "C10", "C12")
    gs = [G("C03", "PLUQ_NAIVE", "_mzd_pluq_naive", 3, 5, P), G("C03", "PLE_NAIVE", "_mzd_ple_naive", 3, 5, P), G("C03", "PLUQ_NAIVE", "_mzd_pluq_naive", 4, 3, P, kind="view1"),
          G("C03", "PLE_NAIVE", "_mzd_ple_naive", 4, 3, P)]
    if tier == "thorough":
        gs += [G("C03", "PLUQ", "mzd_pluq", 2, 3, P, timeout=5400, slots=4), G("C03", "PLE", "mzd_ple", 2, 3, P, timeout=5400, slots=4),
               G("C03", "PLE", "mzd_ple", 2, 3, P, timeout=5400, slots=4, config="scalar")]
    return gs


def c04(tier):
    P = ("C04", "C09", "C11", "C12")
    gs = []
    for mode, fn in (("TRSM_LL", "mzd_trsm_lower_left"), ("TRSM_UL", "mzd_trsm_upper_left"), ("TRSM_UR", "mzd_trsm_upper_right"), ("TRSM_LR", "mzd_trsm_lower_right")):
        gs.append(G("C04", mode, fn, 4, 4, P, bw=3))
        gs.append(G("C04", mode, fn, 3, 3, P, kind="view1", bw=4, extra={"bkind": "view1"}))
        if mode in ("TRSM_UR", "TRSM_LR"):   # right-hand base case with more than one group of 64 rows of B
            gs.append(G("C04", mode, fn, 2, 2, P, bw=66))
        if tier == "thorough":
            gs.append(G("C04", mode, fn, 5, 5, P, kind="view1", bw=66, extra={"bkind": "view1"}, timeout=3600))
            gs.append(G("C04", mode, fn, 6, 6, P, bw=130, timeout=3600))
            gs.append(G("C04", mode, fn, 66, 66, P, bw=2, timeout=5400, slots=4, mem=32))
    return gs


def c05(tier):
    P = ("C05", "C10", "C12")
    gs = [G("C05", "INV_NAIVE", "mzd_invert_naive", 3, 3, P), G("C05", "INV_NAIVE", "mzd_invert_naive", 2, 2, P, kind="view1"),
          G("C05", "TRTRI", "mzd_trtri_upper", 4, 4, P, timeout=1500), G("C05", "TRTRI", "mzd_trtri_upper", 5, 5, P, kind="view1", timeout=1500)]
    if tier == "thorough":   # mzd_inv_m4ri: the unwinding refinement did not converge at 3x3 within 180 rounds (M4RI elimination of the augmented matrix)
        gs += [G("C05", "INV_M4RI", "mzd_inv_m4ri", 3, 3, P, extra={"KPAR": 0}, timeout=5400, slots=4), G("C05", "INV_M4RI", "mzd_inv_m4ri", 2, 2, P, extra={"KPAR": 2}, timeout=3600, slots=4),
               G("C05", "TRTRI", "mzd_trtri_upper", 6, 6, P, timeout=3600)]
    return gs


def c06(tier):
    P = ("C06", "C10", "C11", "C12")
    gs = []
    shapes = [(2, 2, 1), (2, 3, 1), (3, 2, 2), (1, 2, 1)] + ([(3, 3, 2), (2, 4, 1), (4, 2, 1)] if tier == "thorough" else [])
    for m, n, bw in shapes:
        for rk in range(0, min(m, n) + 1):
            gs.append(G("C06", "PLUQ_SOLVE", "mzd_pluq_solve_left", m, n, P, bw=bw, extra={"RK": rk}, timeout=1500,
                        note="; rank %d enumerated, factorisation (L, U, P, Q) and right-hand side symbolic" % rk))
    for m, n, bw in ((1, 2, 1), (2, 3, 2), (2, 2, 1), (3, 2, 1)):
        g = G("C06", "SOLVE_PAD", "_mzd_solve_left (padding rows of B; factorisation stubbed)", m, n, P, bw=bw, timeout=900,
              note="; _mzd_pluq replaced by a rank-0 stub (the padding obligation does not depend on the factorisation)")
        g.tus = [x if x != "solve" else "solve|-D_mzd_pluq=vp_stub_pluq0" for x in g.tus]
        g.native_tus = []
        gs.append(g)
    return gs


def c07(tier):
    P = ("C07", "C10", "C12")
    gs = []
    shapes = [(2, 3), (3, 3), (3, 2)] + ([(2, 5), (4, 3), (3, 66)] if tier == "thorough" else [])
    for m, n in shapes:
        for rk in range(0, min(m, n) + 1):
            g = G("C07", "KERNEL", "mzd_kernel_left_pluq (factorisation of concrete rank handed in)", m, n, P, extra={"RK": rk}, timeout=1500,
                  note="; mzd_pluq replaced by a stub returning the harness-constructed factorisation of rank %d" % rk)
            g.tus = [x if x != "solve" else "solve|-Dmzd_pluq=vp_stub_pluq_given" for x in g.tus]
            g.native_tus = []
            gs.append(g)
    return gs
