"""C11 -- memory safety and controlled failure.
   (a) wrapper obligations: incompatible dimensions => m4ri_die before any operand word is touched (unbounded: dimensions symbolic, data dangling);
   (b) layer S: every call made by the Strassen orchestration meets its callee's shape pre-condition, windows stay inside their parents, headers balanced (unbounded);
   (c) the built-in safety obligations (bounds, pointers, shifts, signed overflow) of a representative sample of the layer-K carriers (bounded shapes)."""
from vplib.core import Group, with_canaries
from checks import layer_s

LEVEL = "model_checking"
META = {"explanation": "wrapper and layer-S groups are unbounded (all dimensions symbolic); the kernel carriers are bounded-shape contract checks whose built-in CBMC safety obligations are part of the same run"}
WRAP = ["ADD", "COPY", "TRANSPOSE", "MUL_NAIVE", "ADDMUL_NAIVE", "CONCAT", "STACK", "SUBMATRIX", "MUL_M4RM", "ADDMUL_M4RM", "MUL", "ADDMUL", "TRSM_UPPER_RIGHT", "TRSM_LOWER_RIGHT",
        "TRSM_LOWER_LEFT", "TRSM_UPPER_LEFT", "PLE", "PLUQ", "SOLVE_LEFT", "PLUQ_SOLVE_LEFT"]
FN = {"ADD": "mzd_add", "COPY": "mzd_copy", "TRANSPOSE": "mzd_transpose", "MUL_NAIVE": "mzd_mul_naive", "ADDMUL_NAIVE": "mzd_addmul_naive", "CONCAT": "mzd_concat", "STACK": "mzd_stack",
      "SUBMATRIX": "mzd_submatrix", "MUL_M4RM": "mzd_mul_m4rm", "ADDMUL_M4RM": "mzd_addmul_m4rm", "MUL": "mzd_mul", "ADDMUL": "mzd_addmul", "TRSM_UPPER_RIGHT": "mzd_trsm_upper_right",
      "TRSM_LOWER_RIGHT": "mzd_trsm_lower_right", "TRSM_LOWER_LEFT": "mzd_trsm_lower_left", "TRSM_UPPER_LEFT": "mzd_trsm_upper_left", "PLE": "mzd_ple", "PLUQ": "mzd_pluq",
      "SOLVE_LEFT": "mzd_solve_left", "PLUQ_SOLVE_LEFT": "mzd_pluq_solve_left"}


def wrapper_groups(props=("C11",), tier="quick"):
    gs = []
    for w in WRAP:
        if w == "TRANSPOSE" and tier == "quick":
            continue   # measured 650 s: the non-dying branch executes the whole transpose on symbolic dimensions; thorough tier only
        gs.append(Group(gid="W." + FN[w], props=list(props), harness="c11_wrappers.c", function=FN[w] + " (dimension check dominates every access)", layer="W", defines={"H_" + w: None},
                        tus=layer_s.ALL_TUS + ["strassen"], native_tus=[], unwind=2, bounded=False,
                        bound_note="(dimensions symbolic up to 2^20, operand storage dangling; no loop may be entered before the check)", timeout=900, mem_gb=16, object_bits=10))
    return gs


def groups(tier, seed):
    from checks import C13, C08
    gs = wrapper_groups(tier=tier) + layer_s.strassen_groups(["C11", "C01", "C09", "C12"]) + layer_s.tri_groups(["C11", "C04", "C05", "C09"]) + layer_s.solve_groups(["C11", "C06", "C07", "C09"]) + layer_s.ech_groups(["C11", "C02", "C09"]) + layer_s.front_groups(["C11", "C03", "C05"])
    # carriers: a sample of kernel contracts whose built-in safety obligations count for C11
    car = [g for g in C13.rowop_groups("quick") if ".view1" in g.gid and ("x200" in g.gid or "x320" in g.gid or "x65" in g.gid)]
    car += [g for g in C08.move_groups("quick") if "_mzd_add.2x573" in g.gid or "mzd_transpose.17x65.null" in g.gid or "mzd_submatrix.2x61-at-1,3" in g.gid]
    car += [g for g in C13.combine_groups("quick") if g.gid.startswith("K.mzd_combine_even_in_place.")]   # alignment assertions of the in-place SSE2 kernel
    car += [g for g in C08.move_groups("quick") if g.gid.startswith("K.mzd_submatrix.2x64-at-1,3")]        # word loop bound / shift count
    car += [g for g in C13.compress_groups("quick") if ".80x128." in g.gid]   # rowstride == width: a read one word past the last row is out of the block
    return with_canaries(gs) + car
