"""C14 -- allocation history: inductive representation invariants of the block cache and the header cache."""
from vplib.core import Group, with_canaries

LEVEL = "proof"
META = {"explanation": "each cache operation is verified from an arbitrary state satisfying the representation invariant (constructed non-deterministically by the harness; the eviction cursor is driven to an arbitrary position by the real code), so preservation + the per-operation post-conditions hold after every history by induction; all loops have constant bounds (16 slots, 16 header blocks, 64 bits) and are unwound completely",
        "assumptions": ["block sizes in the constructed cache state are <= 4096 bytes (contents are never inspected by the cache code, only sizes compared)",
                        "mzd_init instances: rows <= RMAX, columns <= CMAX as listed per group (size arithmetic does not wrap in that range)"]}
P = ["C14", "C10"]


def groups(tier, seed):
    gs = []

    def g(name, fn, extra=None, flags=None, bounded=False, note="", timeout=600, props=P):
        d = {"H_" + name: None}
        if extra:
            d.update(extra)
        gs.append(Group(gid="A." + name.lower() + ("." + "_".join("%s%s" % kv for kv in sorted(extra.items())) if extra else ""), props=list(props), harness="c14.c", function=fn,
                        layer="A", defines=d, tus=["mmc", "misc", "graycode"], native_tus=[], unwind=18, unwindset={"hdr_inv.0": 19, "mzd_t_free.0": 19, "mzd_t_malloc.0": 19},
                        cbmc_flags=(flags or []), bounded=bounded,
                        bound_note=note or "(constant loop bounds 16/64: complete unwinding)", timeout=timeout, mem_gb=16))
    g("MMC_MALLOC", "m4ri_mmc_malloc")
    g("MMC_CALLOC", "m4ri_mmc_calloc", flags=None)
    g("MMC_FREE", "m4ri_mmc_free")
    g("MMC_FREE_LEAK", "m4ri_mmc_free + m4ri_mmc_cleanup (every cached or evicted block released exactly once)", flags=["--memory-leak-check"])
    g("MMC_FREE_ZERO", "m4ri_mmc_free (zero-area matrix)")
    g("MMC_CLEANUP", "m4ri_mmc_cleanup", flags=["--memory-leak-check"])
    g("FINI", "mzd_init/mzd_init_window/mzd_free/m4ri_mmc_cleanup (nothing retained)", flags=["--memory-leak-check"], bounded=True, note="rows<=3, cols<=130")
    g("HDR_MALLOC", "mzd_t_malloc")
    g("HDR_FREE", "mzd_t_free")
    g("HDR_FREE_HEAP", "mzd_t_free (header from plain malloc)")
    for rmax, cmax in ((3, 130), (1, 1), (0, 5), (4, 0), (2, 64)) if tier == "quick" else ((3, 130), (1, 1), (0, 5), (4, 0), (2, 64), (2, 700), (6, 65), (17, 3)):
        g("INIT", "mzd_init", extra={"RMAX": rmax, "CMAX": cmax}, bounded=True, note="%d x %d" % (rmax, cmax), timeout=900)
        if rmax and cmax:
            g("WINDOW_FREE", "mzd_init_window/mzd_free", extra={"RMAX": rmax, "CMAX": cmax}, bounded=True, note="parent %dx%d, window placement symbolic" % (rmax, cmax), timeout=900)
    return with_canaries(gs)
