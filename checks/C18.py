"""C18 -- file I/O: string constructor, JCF reader, PNG reader/writer against ASSUMED contracts of stdio and libpng."""
from vplib.core import Group, with_canaries
from checks.shapes import mat

LEVEL = "model_checking"
META = {"explanation": "the real io.c linked with contract stubs for stdio and libpng (stubs/*.c, the assumed contracts are written out there); dimensions enumerated, token streams / header fields / contents symbolic",
        "assumptions": ["libpng and stdio are replaced by the assumed contracts in stubs/png_stub.c and stubs/stdio_stub.c (row data passes through libpng unchanged apart from packswap/invert; errors are return values, no longjmp)",
                        "malformed *file bytes* (truncation, CRC) are libpng's domain and not modelled: only the header fields libpng reports are arbitrary"]}
TUS = ["mzd", "mmc", "misc", "graycode", "io|-include|/verif/stubs/io_redirect.h", "echelonform", "brilliantrussian", "strassen", "mzp", "ple", "ple_russian", "triangular", "triangular_russian", "djb", "debug_dump", "mp", "solve", "@libm",
       "/verif/stubs/png_stub.c", "/verif/stubs/stdio_stub.c"]
P = ["C18", "C11"]


def groups(tier, seed):
    gs = []
    q = tier == "quick"

    def g(mode, fn, defs, tag, unwind, timeout=600):
        d = {"H_" + mode: None}
        d.update(defs)
        # small base bound for the reader/writer loops (symex cannot fold A->width to a constant there and would unroll nested loops
        # to the blanket bound); the constant-bound loops of the stubs and the harness get their own bounds
        us = {"png_read_row.0": 42, "png_write_row.0": 42, "fread.0": 18, "sprintf.0": 21}
        gs.append(Group(gid="IO.%s.%s" % (fn, tag), props=P, harness="c18.c", function=fn, layer="IO", defines=d, tus=TUS, native_tus=[], assert_mode=True, unwind=unwind, unwindset=us if "PNG" in mode else {}, bounded=True,
                        bound_note="dimensions " + tag, shape=tag, timeout=timeout, mem_gb=16, solver="--sat-solver cadical"))
    for m, n in ((1, 1), (2, 3), (3, 64), (2, 70)) if q else ((1, 1), (2, 3), (3, 64), (2, 70), (1, 130), (3, 65)):
        g("FROM_STR", "mzd_from_str", {"M_": m, "N_": n}, "%dx%d" % (m, n), max(m, n, 16) + 4)
    for hm, hn, nt in ((2, 3, 4), (1, 70, 3), (3, 1, 5), (0, 4, 2), (2, 0, 2), (2, -1, 2)):   # negative row count: the allocation request is astronomically large (controlled abort in the allocator wrapper, C20); not modelled here
        g("FROM_JCF", "mzd_from_jcf", {"HM": "(%d)" % hm, "HN": "(%d)" % hn, "NTOK": nt}, "%dx%d.tok%d" % (hm, hn, nt), 20)
    # IHDR fields enumerated: (bit depth, colour type, interlace, fopen fails, create_read_struct fails)
    # every decision of the reader is enumerated (measured: one symbolic branch over its early-exit paths exhausts memory in the SAT encoding):
    # (bit depth, colour type, interlace, fopen fails, create_read_struct fails, signature mismatch, short read)
    hdrs = [(dp, ct, il, 0, 0, 0, 0) for dp in (1, 2, 4, 8, 16) for ct in (0, 2, 3, 4, 6) for il in (0, 1)] + [(1, 0, 0, 1, 0, 0, 0), (1, 0, 0, 0, 1, 0, 0), (1, 0, 0, 0, 0, 1, 0), (1, 0, 0, 0, 0, 0, 1)]
    for hm, hn in ((2, 9), (1, 70)) if q else ((2, 3), (1, 8), (2, 9), (1, 64), (2, 70)):
        for dp, ct, il, ff, cf, sb, fs in hdrs:
            g("FROM_PNG", "mzd_from_png", {"HM": hm, "HN": hn, "PNG_DEPTH": dp, "PNG_COLOR": ct, "PNG_INTERLACE": il, "PNG_FOPEN_FAILS": ff, "PNG_CREATE_FAILS": cf, "PNG_SIGBAD": sb, "PNG_FREAD_SHORT": fs},
              "%dx%d.depth%d.color%d.il%d.f%d%d%d%d" % (hm, hn, dp, ct, il, ff, cf, sb, fs), 8)
    for hn in ([1, 7, 8, 9, 63, 64, 65, 70] if q else list(range(1, 18)) + [31, 32, 33, 56, 57, 63, 64, 65, 70, 71, 72, 73, 127, 128, 129, 130]):
        for kind in ("owned", "view1"):
            d = mat(2, hn, kind)
            d.pop("NR"), d.pop("NC")
            d.update({"HM": 2, "HN": hn})
            g("PNG_ROUNDTRIP", "mzd_to_png o mzd_from_png", d, "2x%d.%s" % (hn, kind), 8)
    return with_canaries(gs)
