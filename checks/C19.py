"""C19 -- Gray-code tables and word-level bit kernels (finite domains, proof level)."""
from vplib.core import Group, with_canaries

LEVEL = "proof"
META = {
    "explanation": "word kernels: loop-free (or width-bounded, fully unwound) code over the full input domain; code book: finite domain k=1..16 enumerated completely (concrete k, complete unwinding, symbolic entry index); mzd_make_table: bounded in row width, complete in k<=8",
}
P = ["C19"]


def table_groups(tier, props=("C19", "C01", "C02", "C10")):
    """mzd_make_table: complete in k = 1..8 (every caller clips k to <= 8), bounded in the row width"""
    from checks.shapes import mat, even
    gs = []
    q = tier == "quick"
    for k in (range(1, 6) if q else range(1, 9)):   # k = 6..8: measured out of memory (table of 64..256 symbolic rows read at a symbolic row index): thorough-tier attempts
        shapes = [(70, 0, "owned"), (130, 70, "view1")] if q else [(1, 0, "owned"), (64, 0, "owned"), (70, 5, "view0"), (130, 70, "view1"), (200, 64, "owned"), (700, 130, "view1")]
        if q and k == 3:   # (k = 5 at 700 columns: out of memory at the default limit, thorough tier)
            shapes.append((700, 3, "owned"))
        for nc, ccol, kind in shapes:
            d = mat(k + 1, nc, kind)
            w = (nc + 63) // 64
            d.update({"KPAR": k, "CCOL": ccol, "T_PRS": even(w + 1), "T_W0": 1 if kind == "view1" else 0, "T_WIN": 1 if kind == "view1" else 0})
            tag = "k%d.%dx%d.c%d.%s" % (k, k + 1, nc, ccol, kind)
            gs.append(Group(gid="K.mzd_make_table." + tag, props=list(props), harness="k_table.c", function="mzd_make_table", layer="K", defines=d,
                            tus=["mzd", "mmc", "misc", "graycode", "brilliantrussian", "strassen", "mzp", "ple", "ple_russian", "triangular", "triangular_russian", "echelonform", "io", "djb", "debug_dump", "mp", "solve", "@libm"],
                            assert_mode=True, unwind=max((1 << k) + 3, 20), bounded=True, bound_note="k=%d complete in patterns; row width %d columns, start column %d" % (k, nc, ccol), shape=tag,
                            timeout=900, solver="--sat-solver cadical", cbmc_flags=["--arrays-uf-always"] if k >= 6 else []))
    return gs


def groups(tier, seed):
    gs = []
    def w(name, fn, enforce=None, unwind=None, note="", **kw):
        gs.append(Group(gid="C19.word." + name, props=P, harness="c19.c", function=fn, layer="P", defines={"H_" + name.upper(): None},
                        enforce=[enforce] if enforce else [], unwind=unwind, bounded=False, bound_note=note, timeout=300, **kw))
    w("swap", "m4ri_swap_bits", "m4ri_swap_bits")
    w("parity", "m4ri_parity64", "m4ri_parity64")
    w("lsb", "m4ri_lesser_LSB", "m4ri_lesser_LSB", unwind=66, note="(spec-side 64-step reference loop vp_lsb, complete)")
    w("masks", "__M4RI_LEFT_BITMASK/__M4RI_RIGHT_BITMASK/__M4RI_MIDDLE_BITMASK")
    for ln in range(1, 17):
        for nm, fn, enf in (("spread", "m4ri_spread_bits", "m4ri_spread_bits"), ("shrink", "m4ri_shrink_bits", "m4ri_shrink_bits"),
                            ("spread_inv", "m4ri_spread_bits o m4ri_shrink_bits (mutually inverse)", None)):
            if nm == "spread_inv" and ln > 10 and tier == "quick":
                continue   # measured 160 - 510 s each for length 11..16 (a lemma that also follows from the two closed-form contracts): thorough tier
            gs.append(Group(gid="C19.word.%s.len%d" % (nm, ln), props=P, harness="c19.c", function=fn, layer="P", defines={"H_" + nm.upper(): None, "LEN": ln},
                            enforce=[enf] if enf else [], unwind=17, bounded=False, solver="--sat-solver cadical", bound_note="(length enumerated 1..16: complete; the only loop is the harness's 16-step construction of Q)", timeout=600, shape="length=%d" % ln))
    w("spread_abort", "m4ri_spread_bits/m4ri_shrink_bits (length outside 1..16)")
    w("gray", "m4ri_gray_code", unwind=18, note="(loop bounded by l<=16, complete)", tus=["graycode"])
    w("graycf", "m4ri_gray_code (closed form helper contract)", "m4ri_gray_code", unwind=18, note="(loop bounded by l<=16, complete)", tus=["graycode"])
    for k in (range(1, 17) if tier == "thorough" else range(1, 15)):
        gs.append(Group(gid="C19.codelc.k%d" % k, props=P, harness="c19.c", function="m4ri_build_code", layer="P", defines={"H_CODELC": None, "K": k},
                        tus=["graycode"], enforce=["m4ri_build_code"], replace=["m4ri_gray_code"], loop_contracts=True, pre_unwindset={"m4ri_build_code.2": k + 1}, bounded=False, cbmc_flags=["--arrays-uf-always"],
                        bound_note="(loops 1 and 3 closed by loop invariants; outer loop of l<=16 iterations unwound completely)", timeout=900, shape="k=%d" % k, mem_gb=(40 if k >= 16 else 12), slots=(6 if k >= 15 else 1)))
    gs += table_groups(tier)
    # second, independent route without the closed form: concrete k, complete unwinding, every entry visited by symbolic execution
    # (k <= 9 quick; k = 10, 11 thorough: 1-6 min; larger k only by the loop-invariant route above)
    ks = range(1, 12) if tier == "thorough" else range(1, 10)
    for k in ks:
        gs.append(Group(gid="C19.code.k%d" % k, props=P, harness="c19.c", function="m4ri_build_code", layer="P", defines={"H_CODE": None, "K": k},
                        tus=["graycode"], unwind=(1 << k) + 2, bounded=False, bound_note="(concrete k=%d, complete unwinding: finite domain)" % k,
                        timeout=1800, shape="k=%d" % k, mem_gb=16, cbmc_flags=["--max-field-sensitivity-array-size", str((1 << k) + 1)]))
    return gs
