"""C03 -- PLE/PLUQ (layer B: bounded functional checks against spec-side linear algebra; see checks/alg.py)."""
from vplib.core import with_canaries
from checks import alg, layer_s

LEVEL = "model_checking"
META = {"explanation": "bounded functional: one concrete (small) shape per group, every bit pattern of the operands; loop bounds found by unwinding refinement and confirmed by unwinding assertions; compared with spec-side linear algebra (contracts/alg_spec.h) that shares no code with the library",
        "assumptions": ['only the naive reference routines in the quick tier; the Russian/recursive routines are thorough-tier attempts (measured intractable beyond 2x3)']}


def _compress(tier):
    # the compression step of the block-recursive PLE under its own stage contract (defined with the column operations, checks/C13.py)
    from checks import C13
    return [g for g in C13.compress_groups(tier) if not g.canary]


def groups(tier, seed):
    return with_canaries(alg.c03(tier)) + with_canaries([g for g in layer_s.front_groups(["C03", "C11"]) if g.function in ("mzd_pluq", "mzd_ple", "_mzd_pluq")]) + _compress(tier)
