/* Layer S, third family: the orchestration of solve.c (PLUQ solve, kernel) and echelonform.c (PLUQ-based echelon form)
 * under shape / window-containment / index-range / header-balance contracts; all dimensions, the rank and the cutoff
 * symbolic, matrix and permutation data opaque.  Bit accessors carry their index range as a pre-condition, so every
 * "read/clear/xor k bits at (row, col)" of these functions is proved in range for all shapes. */
#ifndef ORCH_SHAPE_CONTRACTS_H
#define ORCH_SHAPE_CONTRACTS_H
#define VP_SOLVE_TRACE /* the public left-hand solves carry the solve-trace ghost in this family (their plain contracts are enforced in S.mzd_trsm_*_left) */
#include "tri_shape_contracts.h"

extern int vg_plive; /* ghost: live permutations created by the code under proof */
extern long vg_solved; /* ghost trace: number of right-hand-side columns handed to the public upper-left triangular solve so far */
extern int vg_rank;  /* ghost: the rank returned by the last factorisation (contract of mzd_pluq / _mzd_pluq / mzd_ple) */

#define PSHP(P) (__CPROVER_r_ok((P), sizeof(mzp_t)) && (P)->length >= 0 && (P)->length <= VP_DIMMAX)
#define RANK_OK(r, A) (0 <= (r) && (r) <= (A)->nrows && (r) <= (A)->ncols)
/* k bits (1..64) of row x starting at column y lie inside M */
#define BITS_IN(M, x, y, n) (SHP(M) && 0 <= (x) && (x) < (M)->nrows && 0 <= (y) && 1 <= (n) && (n) <= 64 && (y) <= (M)->ncols - (n))

static inline word mzd_read_bits(mzd_t const *M, rci_t const x, rci_t const y, int const n)
__CPROVER_requires(BITS_IN(M, x, y, n))
__CPROVER_assigns();
static inline void mzd_xor_bits(mzd_t *M, rci_t const x, rci_t const y, int const n, word values)
__CPROVER_requires(BITS_IN(M, x, y, n))
__CPROVER_assigns();
#ifndef VP_GHOST_INDEX
static inline void mzd_clear_bits(mzd_t *M, rci_t const x, rci_t const y, int const n)
__CPROVER_requires(BITS_IN(M, x, y, n))
__CPROVER_assigns();
static inline void mzd_write_bit(mzd_t *M, rci_t const row, rci_t const col, BIT const value)
__CPROVER_requires(BITS_IN(M, row, col, 1))
__CPROVER_assigns();
#else
/* ghost-index family (S.mzd_echelonize_pluq.full0): vg_qi is an arbitrary row index, never constrained by the harness.  A fact
 * about permutation entries is available for entry vg_qi only (contract of mzd_ple below), so the column range of mzd_write_bit
 * is demanded for row vg_qi -- for an arbitrary vg_qi that is every row.  vg_cleared counts the cells cleared in row vg_qi. */
extern int vg_qi;
extern long vg_cleared;
static inline void mzd_clear_bits(mzd_t *M, rci_t const x, rci_t const y, int const n)
__CPROVER_requires(BITS_IN(M, x, y, n))
__CPROVER_assigns(vg_cleared)
__CPROVER_ensures(vg_cleared == __CPROVER_old(vg_cleared) + (x == vg_qi ? n : 0));
static inline void mzd_write_bit(mzd_t *M, rci_t const row, rci_t const col, BIT const value)
__CPROVER_requires(SHP(M) && 0 <= row && row < M->nrows && (row != vg_qi || (0 <= col && col < M->ncols)))
__CPROVER_assigns();
#endif

mzp_t *mzp_init(rci_t length)
__CPROVER_requires(length >= 0 && length <= VP_DIMMAX)
__CPROVER_assigns(vg_plive)
#ifdef VP_GHOST_INDEX
__CPROVER_ensures(__CPROVER_is_fresh(__CPROVER_return_value, sizeof(mzp_t)) && __CPROVER_return_value->length == length && vg_plive == __CPROVER_old(vg_plive) + 1 &&
                  __CPROVER_is_fresh(__CPROVER_return_value->values, sizeof(rci_t) * (size_t)(length > 0 ? length : 1)));
#else
__CPROVER_ensures(__CPROVER_is_fresh(__CPROVER_return_value, sizeof(mzp_t)) && __CPROVER_return_value->length == length && vg_plive == __CPROVER_old(vg_plive) + 1);
#endif
void mzp_free(mzp_t *P)
__CPROVER_requires(PSHP(P))
__CPROVER_assigns(vg_plive)
__CPROVER_ensures(vg_plive == __CPROVER_old(vg_plive) - 1);

/* row / column permutations: any length (the routines apply min(length, dimension) swaps); P's entries are data */
void mzd_apply_p_left(mzd_t *A, mzp_t const *P) __CPROVER_requires(SHP(A) && PSHP(P)) __CPROVER_assigns();
void mzd_apply_p_left_trans(mzd_t *A, mzp_t const *P) __CPROVER_requires(SHP(A) && PSHP(P)) __CPROVER_assigns();
void mzd_apply_p_right(mzd_t *A, mzp_t const *P) __CPROVER_requires(SHP(A) && PSHP(P)) __CPROVER_assigns();
int mzd_is_zero(mzd_t const *A) __CPROVER_requires(SHP(A)) __CPROVER_assigns();
void mzd_set_ui(mzd_t *M, unsigned int const value) __CPROVER_requires(SHP(M)) __CPROVER_assigns();

/* S == NULL form: a fresh (highr - lowr) x (highc - lowc) matrix; the region lies inside M */
mzd_t *mzd_submatrix(mzd_t *S, mzd_t const *M, rci_t const lowr, rci_t const lowc, rci_t const highr, rci_t const highc)
__CPROVER_requires(S == NULL && SHP(M) && 0 <= lowr && lowr <= highr && highr <= M->nrows && 0 <= lowc && lowc <= highc && highc <= M->ncols)
__CPROVER_assigns(vg_live)
__CPROVER_ensures(FRESH_HDR(__CPROVER_return_value) && __CPROVER_return_value->nrows == highr - lowr && __CPROVER_return_value->ncols == highc - lowc &&
                  !WINDOWED(__CPROVER_return_value) && vg_live == __CPROVER_old(vg_live) + 1);

/* factorisations: permutation lengths match, the rank is within both dimensions (certificate contract: property C03) */
#define PLUQ_REQ(A, P, Q, cutoff) (SHP(A) && PSHP(P) && PSHP(Q) && (P)->length == (A)->nrows && (Q)->length == (A)->ncols && CUT_OK(cutoff))
rci_t _mzd_pluq(mzd_t *A, mzp_t *P, mzp_t *Q, int const cutoff)
__CPROVER_requires(PLUQ_REQ(A, P, Q, cutoff)) __CPROVER_assigns(vg_rank, vg_live)
__CPROVER_ensures(RANK_OK(__CPROVER_return_value, A) && vg_rank == __CPROVER_return_value && vg_live == __CPROVER_old(vg_live));
rci_t mzd_pluq(mzd_t *A, mzp_t *P, mzp_t *Q, int const cutoff)
__CPROVER_requires(PLUQ_REQ(A, P, Q, cutoff)) __CPROVER_assigns(vg_rank, vg_live)
__CPROVER_ensures(RANK_OK(__CPROVER_return_value, A) && vg_rank == __CPROVER_return_value && vg_live == __CPROVER_old(vg_live));
#ifndef VP_GHOST_INDEX
rci_t mzd_ple(mzd_t *A, mzp_t *P, mzp_t *Q, int const cutoff)
__CPROVER_requires(PLUQ_REQ(A, P, Q, cutoff)) __CPROVER_assigns(vg_rank) __CPROVER_ensures(RANK_OK(__CPROVER_return_value, A) && vg_rank == __CPROVER_return_value);
#else
/* + the LAPACK range of the column permutation (property C03), at the ghost index */
rci_t mzd_ple(mzd_t *A, mzp_t *P, mzp_t *Q, int const cutoff)
__CPROVER_requires(PLUQ_REQ(A, P, Q, cutoff) && __CPROVER_rw_ok(Q->values, sizeof(rci_t) * (size_t)(Q->length > 0 ? Q->length : 1)))
__CPROVER_assigns(vg_rank, __CPROVER_object_whole(Q->values))
__CPROVER_ensures(RANK_OK(__CPROVER_return_value, A) && vg_rank == __CPROVER_return_value)
__CPROVER_ensures((0 <= vg_qi && vg_qi < __CPROVER_return_value) ==> (Q->values[vg_qi] >= vg_qi && Q->values[vg_qi] < A->ncols));
#endif

/* public triangular solves with a left-hand triangle: conforming, B has columns; an empty triangle (rank 0) is allowed */
#define TRSM_L0(T, B) TRSM_L(T, B)
void mzd_trsm_lower_left(mzd_t const *L, mzd_t *B, const int cutoff)
__CPROVER_requires(TRSM_L0(L, B) && CUT_OK(cutoff)) __CPROVER_assigns(vg_live, vg_tri) __CPROVER_ensures(vg_live == __CPROVER_old(vg_live));
void mzd_trsm_upper_left(mzd_t const *U, mzd_t *B, const int cutoff)
__CPROVER_requires(TRSM_L0(U, B) && CUT_OK(cutoff)) __CPROVER_assigns(vg_live, vg_tri, vg_solved)
__CPROVER_ensures(vg_live == __CPROVER_old(vg_live) && vg_solved == __CPROVER_old(vg_solved) + B->ncols);

/* solve.c */
#define SOLVE_REQ(A, rank, P, Q, B, cutoff)                                                                             \
  (SHP(A) && SHP(B) && NE(A) && NE(B) && PSHP(P) && PSHP(Q) && (P)->length == (A)->nrows && (Q)->length == (A)->ncols && \
   (B)->nrows == ((A)->nrows > (A)->ncols ? (A)->nrows : (A)->ncols) && RANK_OK(rank, A) && CUT_OK(cutoff))
int mzd_pluq_solve_left(mzd_t const *A, rci_t rank, mzp_t const *P, mzp_t const *Q, mzd_t *B, int const cutoff, int const inconsistency_check)
__CPROVER_requires(SOLVE_REQ(A, rank, P, Q, B, cutoff))
__CPROVER_assigns(vg_live, vg_tri, vg_solved)
__CPROVER_ensures(vg_live == __CPROVER_old(vg_live) && (__CPROVER_return_value == 0 || __CPROVER_return_value == -1));
int _mzd_pluq_solve_left(mzd_t const *A, rci_t rank, mzp_t const *P, mzp_t const *Q, mzd_t *B, int const cutoff, int const inconsistency_check)
__CPROVER_requires(SOLVE_REQ(A, rank, P, Q, B, cutoff))
__CPROVER_assigns(vg_live, vg_tri, vg_solved)
__CPROVER_ensures(vg_live == __CPROVER_old(vg_live) && (__CPROVER_return_value == 0 || __CPROVER_return_value == -1));
int _mzd_solve_left(mzd_t *A, mzd_t *B, int const cutoff, int const inconsistency_check)
__CPROVER_requires(SHP(A) && SHP(B) && NE(A) && NE(B) && B->nrows == (A->nrows > A->ncols ? A->nrows : A->ncols) && CUT_OK(cutoff))
__CPROVER_assigns(vg_live, vg_plive, vg_tri, vg_rank, vg_solved)
__CPROVER_ensures(vg_live == __CPROVER_old(vg_live) && vg_plive == __CPROVER_old(vg_plive) && (__CPROVER_return_value == 0 || __CPROVER_return_value == -1));
/* kernel: NULL exactly when nothing is allocated; otherwise one new ncols x (ncols - rank) matrix, every temporary released */
mzd_t *mzd_kernel_left_pluq(mzd_t *A, int const cutoff)
__CPROVER_requires(SHP(A) && NE(A) && CUT_OK(cutoff))
__CPROVER_assigns(vg_live, vg_plive, vg_tri, vg_rank, vg_solved)
__CPROVER_ensures(vg_plive == __CPROVER_old(vg_plive))
__CPROVER_ensures((__CPROVER_return_value == NULL) == (vg_rank == A->ncols))
__CPROVER_ensures(__CPROVER_return_value == NULL ==> vg_live == __CPROVER_old(vg_live))
__CPROVER_ensures(__CPROVER_return_value != NULL ==> (vg_live == __CPROVER_old(vg_live) + 1 && __CPROVER_return_value->nrows == A->ncols &&
                                                       __CPROVER_return_value->ncols == A->ncols - vg_rank));
/* echelonform.c */
#ifdef VP_GHOST_INDEX
/* full == 0: row i < rank has exactly its first i + 1 cells (the stored L part incl. the diagonal position) cleared, then the pivot
 * cell (i, Q[i]) set; stated for row vg_qi */
rci_t mzd_echelonize_pluq(mzd_t *A, int full)
__CPROVER_requires(SHP(A) && NE(A) && full == 0)
__CPROVER_assigns(vg_live, vg_plive, vg_tri, vg_rank, vg_solved, vg_cleared)
__CPROVER_ensures(vg_live == __CPROVER_old(vg_live) && vg_plive == __CPROVER_old(vg_plive) && RANK_OK(__CPROVER_return_value, A) && __CPROVER_return_value == vg_rank)
__CPROVER_ensures(vg_cleared == __CPROVER_old(vg_cleared) + ((0 <= vg_qi && vg_qi < vg_rank) ? vg_qi + 1 : 0));
#else
rci_t mzd_echelonize_pluq(mzd_t *A, int full)
__CPROVER_requires(SHP(A) && NE(A))
__CPROVER_assigns(vg_live, vg_plive, vg_tri, vg_rank, vg_solved)
__CPROVER_ensures(vg_live == __CPROVER_old(vg_live) && vg_plive == __CPROVER_old(vg_plive) && RANK_OK(__CPROVER_return_value, A) && __CPROVER_return_value == vg_rank)
/* full reduction: unless the rank equals the column count, the columns right of the last complete 64-column block of pivots
 * (the non-pivot block, plus the pivots sharing its first word) all go through the triangular solve, once */
__CPROVER_ensures(full ==> vg_solved == __CPROVER_old(vg_solved) + (vg_rank == A->ncols ? 0 : A->ncols - 64 * (vg_rank / 64)));
#endif

/* ple.c / brilliantrussian.c front ends */
rci_t _mzd_ple(mzd_t *A, mzp_t *P, mzp_t *Q, int const cutoff)
__CPROVER_requires(PLUQ_REQ(A, P, Q, cutoff)) __CPROVER_assigns(vg_rank) __CPROVER_ensures(RANK_OK(__CPROVER_return_value, A) && vg_rank == __CPROVER_return_value);
void mzd_apply_p_right_trans_tri(mzd_t *A, mzp_t const *Q)
__CPROVER_requires(SHP(A) && PSHP(Q) && Q->length == A->ncols) __CPROVER_assigns();
/* k: the admissible table parameters of property C02 (0 = automatic choice, 1..10; the block of 6k columns is handled as one
 * machine word, so 6k <= 64) */
rci_t mzd_echelonize_m4ri(mzd_t *A, int full, int k)
__CPROVER_requires(SHP(A) && k >= 0 && k <= 10) __CPROVER_assigns() __CPROVER_ensures(RANK_OK(__CPROVER_return_value, A));
/* header relation the inversion front end relies on (width is read to place the identity on a word boundary) */
#define WIDTH_OK(M) ((M)->width == ((M)->ncols + 63) / 64)
mzd_t *mzd_inv_m4ri(mzd_t *B, mzd_t const *A, int k)
__CPROVER_requires(SHP(A) && NE(A) && WIDTH_OK(A) && A->nrows == A->ncols && A->ncols <= (1 << 28) - 64 && (B == NULL || (SHP(B) && B->nrows == A->nrows && B->ncols == A->ncols)))
__CPROVER_assigns(vg_live)
__CPROVER_ensures(B != NULL ==> (__CPROVER_return_value == B && vg_live == __CPROVER_old(vg_live)))
__CPROVER_ensures(B == NULL ==> (FRESH_HDR(__CPROVER_return_value) && __CPROVER_return_value->nrows == A->nrows && __CPROVER_return_value->ncols == A->ncols && vg_live == __CPROVER_old(vg_live) + 1));
#endif
