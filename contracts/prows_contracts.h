/* mzd_process_rows / mzd_process_rows2..6 (brilliantrussian.c): the row-update stage of M4RI elimination.
 * For every row r in [startrow, stoprow):  with bits = the k cells (r, startcol .. startcol+k-1) BEFORE the call, split into
 * NT chunks (sizes as the routine documents them: as even as possible, see vp_chunk), x_t = L_t[chunk_t]:
 *      M[r][w] ^= T_0[x_0][w] ^ ... ^ T_{NT-1}[x_{NT-1}][w]   for every word w >= startcol/64 (whole words)
 * and nothing else changes.  Pre-conditions from the call sites (mzd_make_table's post-condition): every table has
 * 2^chunk rows of M's width, row 0 of each table is zero and L_t maps into the table (the routines skip rows whose
 * indices are all 0, and the single-table k == 1 path reads table row 1 directly). */
#ifndef PROWS_CONTRACTS_H
#define PROWS_CONTRACTS_H
#include "mzd_contracts.h"

/* chunk sizes: NT == 2: (k/2, k - k/2); otherwise table t gets k/NT, plus 1 if t < NT-1 and k%NT >= NT-1-t */
static inline int vp_chunk(int k, int nt, int t) {
  if (nt == 1) return k;
  if (nt == 2) return t == 0 ? k / 2 : k - k / 2;
  return k / nt + ((t < nt - 1 && k % nt >= nt - 1 - t) ? 1 : 0);
}
static inline int vp_chunk_off(int k, int nt, int t) {
  int o = 0;
  for (int s = 0; s < 6; ++s)
    if (s < t) o += vp_chunk(k, nt, s);
  return o;
}
/* the k old cells of row r from column c on, as a number (cell c is bit 0) */
static inline vp_word vp_old_bits(mzd_t const *M, int r, int c, int k) {
  vp_word v = 0;
  for (int b = 0; b < 64; ++b)
    if (b < k) v |= ((vp_word)VP_OLDBIT_AT(M, r, c + b)) << b;
  return v;
}
static inline int vp_L_ok(rci_t const *L, int n) {
  int ok = L[0] == 0 && (n != 2 || L[1] == 1); /* L is a bijection with L[0] == 0 (mzd_make_table's post-condition); only the 2-entry case is needed in closed form */
  for (int i = 0; i < n; ++i) ok = ok && L[i] >= 0 && L[i] < n;
  return ok;
}
typedef struct {
  int nt;
  mzd_t const *T[6];
  rci_t const *L[6];
} vp_tables_t;

static inline int vp_tables_ok(mzd_t const *M, int startcol, int k, vp_tables_t const *tb) {
  int ok = tb->nt >= 1 && tb->nt <= 6 && k >= tb->nt && k <= 64;
  for (int t = 0; t < 6; ++t)
    if (t < tb->nt) {
      int n = 1 << vp_chunk(k, tb->nt, t);
      ok    = ok && VP_HDR(tb->T[t]) && tb->T[t]->ncols == M->ncols && tb->T[t]->nrows >= n && vp_L_ok(tb->L[t], n);
      for (int w = 0; w < M->width; ++w)
        if (w >= startcol / 64) ok = ok && VP_W(tb->T[t], 0, w) == 0;
    }
  return ok;
}
static inline vp_word vp_prows_delta(mzd_t const *M, int r, int startcol, int k, vp_tables_t const *tb, int w) {
  vp_word bits = vp_old_bits(M, r, startcol, k), d = 0;
  for (int t = 0; t < 6; ++t)
    if (t < tb->nt) {
      int c       = vp_chunk(k, tb->nt, t);
      vp_word idx = (bits >> vp_chunk_off(k, tb->nt, t)) & ((((vp_word)1) << c) - 1);
      rci_t x     = tb->L[t][idx];
      d ^= VP_W(tb->T[t], VP_CLAMP(x, 0, (1 << c) - 1), w);
    }
  return d;
}
#define REQ_process_rows(M, r0, r1, c0, k, tb)                                                     \
  (VP_HDR(M) && VP_NONEMPTY(M) && 0 <= (r0) && (r0) <= (r1) && (r1) <= (M)->nrows && (c0) >= 0 && (c0) < (M)->ncols && (k) >= 1 && (k) <= (M)->ncols - (c0) &&     \
   vp_tables_ok(M, c0, k, tb) && VP_GHOST_OK(M, vg_r, vg_w))
#define VP_PR_HIT(M, r0, r1, c0) (vg_r >= (r0) && vg_r < (r1) && vg_w >= (c0) / 64 && vg_w < (M)->width)
#define ENS1_process_rows(M, r0, r1, c0, k, tb) VP_IMP(VP_PR_HIT(M, r0, r1, c0), VP_G(M) == (VP_G0(M) ^ vp_prows_delta(M, VP_CLAMP(vg_r, 0, (M)->nrows - 1), c0, k, tb, vg_w)))
#define ENS2_process_rows(M, r0, r1, c0, k, tb) VP_IMP(!VP_PR_HIT(M, r0, r1, c0), VP_G(M) == VP_G0(M))
#endif
