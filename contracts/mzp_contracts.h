/* Contracts for permutation application (mzp.c), property C13.
 * P is a LAPACK-style swap sequence: i <= P[i] < dim.  The spec is the swap loop of the property
 * statement executed on an *index* (never on data): src(j) = the original column (row) whose content
 * ends at column (row) j.  If swaps s_1, ..., s_n are applied in that order to the matrix then
 * final[j] = old[s_1(s_2(...s_n(j)))], i.e. the swaps are applied to the index in reverse order. */
#ifndef MZP_CONTRACTS_H
#define MZP_CONTRACTS_H
#include "mzd_contracts.h"

extern int vg_src; /* ghost: source index of the ghost cell, fixed by the pre-condition */

#define VP_SWAP_IDX(j, a, b) ((j) == (a) ? (b) : ((j) == (b) ? (a) : (j)))
/* swaps applied to the matrix for ascending i  => index walks descending i */
static inline int vp_src_asc(rci_t const *P, int length, int j) {
  for (int i = length - 1; i >= 0; --i) j = VP_SWAP_IDX(j, i, P[i]);
  return j;
}
/* swaps applied to the matrix for descending i => index walks ascending i */
static inline int vp_src_desc(rci_t const *P, int length, int j) {
  for (int i = 0; i < length; ++i) j = VP_SWAP_IDX(j, i, P[i]);
  return j;
}
/* 'triangular' transposed right application: swap i (ascending) acts on rows < i only */
static inline int vp_src_tri(rci_t const *P, int length, int row, int j) {
  for (int i = length - 1; i > row; --i) j = VP_SWAP_IDX(j, i, P[i]);
  return j;
}
static inline int vp_lapack_ok(rci_t const *P, int length, int dim) {
  int ok = 1;
  for (int i = 0; i < length; ++i) ok = ok && P[i] >= i && P[i] < dim;
  return ok;
}
#define VP_PLEN(P, dim) ((P)->length < (dim) ? (P)->length : (dim))

/* rows: ghost word (vg_r, vg_w) of the block; inside the view's rows the cells of row vg_r come from row vg_src */
#define REQ_apply_p_left(A, P, SRCF)                                                               \
  (VP_HDR(A) && (P)->length >= 0 && vp_lapack_ok((P)->values, VP_PLEN(P, (A)->nrows), (A)->nrows) && VP_GHOST_OK(A, vg_r, vg_w) &&           \
   VP_IMP(VP_ROWOK(A, vg_r), vg_src == SRCF((P)->values, VP_PLEN(P, (A)->nrows), vg_r)))
#define ENS1_apply_p_left(A, P)                                                                    \
  VP_IMP(VP_ROWOK(A, vg_r), VP_G(A) == ((VP_G0(A) & ~VP_CELLMASK(A, vg_w)) | (VP_W0(A, VP_CLAMP(vg_src, 0, (A)->nrows - 1), vg_w) & VP_CELLMASK(A, vg_w))))
#define ENS2_apply_p_left(A, P) VP_IMP(!VP_ROWOK(A, vg_r), VP_G(A) == VP_G0(A))

/* columns: ghost bit (vg_r, vg_w, vg_b) of the block; rows >= start_row of the view: cell j comes from cell vg_src */
#define REQ_apply_p_right(A, P, r0, SRCF)                                                          \
  (VP_HDR(A) && VP_NONEMPTY(A) && (P)->length >= 0 && (r0) >= 0 && (r0) <= (A)->nrows && vp_lapack_ok((P)->values, VP_PLEN(P, (A)->ncols), (A)->ncols) &&        \
   VP_GHOST_OK(A, vg_r, vg_w) && VP_GBIT_OK && VP_IMP(VP_GCELL(A, r0), vg_src == SRCF((P)->values, VP_PLEN(P, (A)->ncols), VP_GCOL)))
#define ENS1_apply_p_right(A, P, r0) VP_IMP(VP_GCELL(A, r0), VP_BITOF(VP_G(A), vg_b) == VP_OLDBIT_AT(A, vg_r, VP_CLAMP(vg_src, 0, (A)->ncols - 1)))
#define ENS2_apply_p_right(A, P, r0) VP_IMP(!VP_GCELL(A, r0), VP_BITOF(VP_G(A), vg_b) == VP_BITOF(VP_G0(A), vg_b))
/* tri: P->length == ncols required by the routine (assert) */
#define REQ_apply_p_right_tri(A, P)                                                                \
  (VP_HDR(A) && VP_NONEMPTY(A) && (P)->length == (A)->ncols && vp_lapack_ok((P)->values, (P)->length, (A)->ncols) && VP_GHOST_OK(A, vg_r, vg_w) && VP_GBIT_OK &&   \
   VP_IMP(VP_GCELL(A, 0), vg_src == vp_src_tri((P)->values, (P)->length, vg_r, VP_GCOL)))

/* ------------------------------------------------------------------ _mzd_compress_l(A, r1, n1, r2)
 * the compression step of the block-recursive PLE (ple.c).  From the call site: n1 is a multiple of 64,
 * r1 <= n1 is the rank of the left half, r2 the rank of the right half, and in the rows below r1 + r2
 * everything right of column n1 + r2 is zero.  Cells: rows < r1 stay; row r1 + k (k < r2) has the column
 * pairs (r1 + j, n1 + j), j = 0..k, swapped in that order; in rows >= r1 + r2 the cells [n1, n1 + r2)
 * move to [r1, r1 + r2) and [r1 + r2, n1 + r2) becomes zero.  Nothing outside the cells of A changes. */
#define VP_SRC_ZERO (-1)
static inline int vp_src_compress(int r1, int n1, int r2, int row, int c) {
  if (r1 == n1 || row < r1) return c;
  if (row < r1 + r2) {
    for (int j = row - r1; j >= 0; --j) c = VP_SWAP_IDX(c, r1 + j, n1 + j);
    return c;
  }
  if (c < r1) return c;
  if (c < r1 + r2) return n1 + (c - r1);
  if (c < n1 + r2) return VP_SRC_ZERO;
  return c;
}
/* the rows below r1 + r2 are zero from column n1 + r2 on (concrete-index scan) */
static inline int vp_compress_tail_zero(mzd_t const *A, int r1, int n1, int r2) {
  int ok = 1;
  for (int r = r1 + r2; r < A->nrows; ++r)
    for (int w = 0; w < A->width; ++w) ok = ok && (VP_W(A, r, w) & VP_CELLMASK(A, w) & VP_FROMCOL(n1 + r2, w)) == 0;
  return ok;
}
#define REQ__mzd_compress_l(A, r1, n1, r2)                                                         \
  (VP_HDR(A) && VP_NONEMPTY(A) && 0 <= (r1) && (r1) <= (n1) && (n1) % 64 == 0 && (n1) < (A)->ncols && 0 <= (r2) && (n1) + (r2) <= (A)->ncols &&   \
   (r1) + (r2) <= (A)->nrows && vp_compress_tail_zero(A, r1, n1, r2) && VP_GHOST_OK(A, vg_r, vg_w) && VP_GBIT_OK &&                                \
   VP_IMP(VP_GCELL(A, 0), vg_src == vp_src_compress(r1, n1, r2, vg_r, VP_GCOL)))
#define ENS1__mzd_compress_l(A, r1, n1, r2)                                                        \
  VP_IMP(VP_GCELL(A, 0), VP_BITOF(VP_G(A), vg_b) == (vg_src == VP_SRC_ZERO ? 0 : VP_OLDBIT_AT(A, vg_r, VP_CLAMP(vg_src, 0, (A)->ncols - 1))))
#define ENS2__mzd_compress_l(A, r1, n1, r2) VP_IMP(!VP_GCELL(A, 0), VP_BITOF(VP_G(A), vg_b) == VP_BITOF(VP_G0(A), vg_b))

#ifndef VP_NATIVE
void mzd_apply_p_left(mzd_t *A, mzp_t const *P)
__CPROVER_requires(REQ_apply_p_left(A, P, vp_src_asc))
__CPROVER_assigns(__CPROVER_object_whole(A->data))
__CPROVER_ensures(ENS1_apply_p_left(A, P))
__CPROVER_ensures(ENS2_apply_p_left(A, P));

void mzd_apply_p_left_trans(mzd_t *A, mzp_t const *P)
__CPROVER_requires(REQ_apply_p_left(A, P, vp_src_desc))
__CPROVER_assigns(__CPROVER_object_whole(A->data))
__CPROVER_ensures(ENS1_apply_p_left(A, P))
__CPROVER_ensures(ENS2_apply_p_left(A, P));

void mzd_apply_p_right(mzd_t *A, mzp_t const *P)
__CPROVER_requires(REQ_apply_p_right(A, P, 0, vp_src_desc))
__CPROVER_assigns(__CPROVER_object_whole(A->data))
__CPROVER_ensures(ENS1_apply_p_right(A, P, 0))
__CPROVER_ensures(ENS2_apply_p_right(A, P, 0));

void mzd_apply_p_right_trans(mzd_t *A, mzp_t const *P)
__CPROVER_requires(REQ_apply_p_right(A, P, 0, vp_src_asc))
__CPROVER_assigns(__CPROVER_object_whole(A->data))
__CPROVER_ensures(ENS1_apply_p_right(A, P, 0))
__CPROVER_ensures(ENS2_apply_p_right(A, P, 0));

/* capped variants: every call site passes start_col == 0 (derived pre-condition) */
void mzd_apply_p_right_even_capped(mzd_t *A, mzp_t const *P, rci_t start_row, rci_t start_col)
__CPROVER_requires(start_col == 0 && REQ_apply_p_right(A, P, start_row, vp_src_desc))
__CPROVER_assigns(__CPROVER_object_whole(A->data))
__CPROVER_ensures(ENS1_apply_p_right(A, P, start_row))
__CPROVER_ensures(ENS2_apply_p_right(A, P, start_row));

void mzd_apply_p_right_trans_even_capped(mzd_t *A, mzp_t const *P, rci_t start_row, rci_t start_col)
__CPROVER_requires(start_col == 0 && REQ_apply_p_right(A, P, start_row, vp_src_asc))
__CPROVER_assigns(__CPROVER_object_whole(A->data))
__CPROVER_ensures(ENS1_apply_p_right(A, P, start_row))
__CPROVER_ensures(ENS2_apply_p_right(A, P, start_row));

void mzd_apply_p_right_trans_tri(mzd_t *A, mzp_t const *P)
__CPROVER_requires(REQ_apply_p_right_tri(A, P))
__CPROVER_assigns(__CPROVER_object_whole(A->data))
__CPROVER_ensures(ENS1_apply_p_right(A, P, 0))
__CPROVER_ensures(ENS2_apply_p_right(A, P, 0));
void _mzd_compress_l(mzd_t *A, rci_t r1, rci_t n1, rci_t r2)
__CPROVER_requires(REQ__mzd_compress_l(A, r1, n1, r2))
__CPROVER_assigns(__CPROVER_object_whole(A->data))
__CPROVER_ensures(ENS1__mzd_compress_l(A, r1, n1, r2))
__CPROVER_ensures(ENS2__mzd_compress_l(A, r1, n1, r2));
#endif
#endif
