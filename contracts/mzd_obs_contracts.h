/* Contracts for the observers (C17) and the data-movement routines (C08) of mzd.c.
 * Whole-matrix facts (exists / for all cells) are stated with small spec loops over the abstract
 * cells (VP_BIT); the shapes are concrete per instance so the loops unwind completely. */
#ifndef MZD_OBS_CONTRACTS_H
#define MZD_OBS_CONTRACTS_H
#include "mzd_contracts.h"

/* ---------- abstract-matrix spec functions (never call library code) ---------- */
static inline int vp_all_equal(mzd_t const *A, mzd_t const *B) {
  if (A->nrows != B->nrows || A->ncols != B->ncols) return 0;
  int eq = 1;
  for (int i = 0; i < A->nrows; ++i)
    for (int w = 0; w < A->width; ++w) eq = eq && (((VP_W(A, i, w) ^ VP_W(B, i, w)) & VP_CELLMASK(A, w)) == 0);
  return eq;
}
static inline int vp_all_zero(mzd_t const *A) {
  int z = 1;
  for (int i = 0; i < A->nrows; ++i)
    for (int w = 0; w < A->width; ++w) z = z && ((VP_W(A, i, w) & VP_CELLMASK(A, w)) == 0);
  return z;
}
static inline int vp_row_zero(mzd_t const *A, int i) {
  int z = 1;
  for (int w = 0; w < A->width; ++w) z = z && ((VP_W(A, i, w) & VP_CELLMASK(A, w)) == 0);
  return z;
}
/* one past the last non-zero row */
static inline int vp_first_zero_row(mzd_t const *A) {
  int r = 0;
  for (int i = 0; i < A->nrows; ++i)
    if (!vp_row_zero(A, i)) r = i + 1;
  return r;
}
/* left-most column c >= c0 that has a one in some row >= r0; ncols if the region is zero */
static inline int vp_leftmost_col(mzd_t const *A, int r0, int c0) {
  int best = A->ncols;
  for (int i = r0; i < A->nrows; ++i)
    for (int j = A->ncols - 1; j >= c0; --j)
      if (VP_BIT(A, i, j) && j < best) best = j;
  return best;
}
/* the order mzd_cmp documents: dimensions first; then rows top to bottom, inside a row the column with the
 * larger index is more significant.  sign of (A - B). */
static inline int vp_cmp(mzd_t const *A, mzd_t const *B) {
  if (A->nrows < B->nrows) return -1;
  if (B->nrows < A->nrows) return 1;
  if (A->ncols < B->ncols) return -1;
  if (B->ncols < A->ncols) return 1;
  int res = 0;
  for (int i = A->nrows - 1; i >= 0; --i)
    for (int w = 0; w < A->width; ++w) {
      vp_word a = VP_W(A, i, w) & VP_CELLMASK(A, w), b = VP_W(B, i, w) & VP_CELLMASK(A, w);
      if (a < b) res = -1;
      if (a > b) res = 1;
    }
  return res;
}

/* ---------- observers ---------- */
#define REQ_mzd_equal(A, B) (VP_HDR(A) && VP_HDR(B) && VP_NONEMPTY(A) && VP_NONEMPTY(B))
#define ENS1_mzd_equal(A, B, ret) (((ret) != 0) == (vp_all_equal(A, B) != 0))
#define REQ_mzd_cmp(A, B) REQ_mzd_equal(A, B)
#define ENS1_mzd_cmp(A, B, ret) (((ret) == 0) == (vp_all_equal(A, B) != 0))
#define ENS2_mzd_cmp(A, B, ret) (((ret) < 0) == (vp_cmp(A, B) < 0) && ((ret) > 0) == (vp_cmp(A, B) > 0))
#define REQ_mzd_is_zero(A) (VP_HDR(A) && VP_NONEMPTY(A))
#define ENS1_mzd_is_zero(A, ret) (((ret) != 0) == (vp_all_zero(A) != 0))
#define REQ_mzd_first_zero_row(A) (VP_HDR(A) && VP_NONEMPTY(A))
#define ENS1_mzd_first_zero_row(A, ret) ((ret) == vp_first_zero_row(A))
/* pivot search: fails exactly when the region is zero, otherwise *c is the left-most non-zero column of the
 * region, *r >= start_row and the reported position holds a one */
#define REQ_mzd_find_pivot(A, r0, c0, r, c) (VP_HDR(A) && VP_NONEMPTY(A) && (r0) >= 0 && (r0) <= (A)->nrows && (c0) >= 0 && (c0) < (A)->ncols)
#define ENS1_mzd_find_pivot(A, r0, c0, r, c, ret) (((ret) == 0) == (vp_leftmost_col(A, r0, c0) == (A)->ncols))
#define ENS2_mzd_find_pivot(A, r0, c0, r, c, ret)                                                  \
  VP_IMP((ret) != 0, *(c) == vp_leftmost_col(A, r0, c0) && *(r) >= (r0) && *(r) < (A)->nrows && VP_BIT(A, VP_CLAMP(*(r), 0, (A)->nrows - 1), VP_CLAMP(*(c), 0, (A)->ncols - 1)) == 1)

#ifndef VP_NATIVE
int mzd_equal(mzd_t const *A, mzd_t const *B)
__CPROVER_requires(REQ_mzd_equal(A, B))
__CPROVER_assigns()
__CPROVER_ensures(ENS1_mzd_equal(A, B, __CPROVER_return_value));

int mzd_cmp(mzd_t const *A, mzd_t const *B)
__CPROVER_requires(REQ_mzd_cmp(A, B))
__CPROVER_assigns()
__CPROVER_ensures(ENS1_mzd_cmp(A, B, __CPROVER_return_value));
/* ENS2_mzd_cmp (the exact documented order) is deliberately NOT part of the contract: the property only asks for
 * "0 iff equal, antisymmetric, transitive" (the latter two are the H_CMP_ORDER lemma harness) */

int mzd_is_zero(mzd_t const *A)
__CPROVER_requires(REQ_mzd_is_zero(A))
__CPROVER_assigns()
__CPROVER_ensures(ENS1_mzd_is_zero(A, __CPROVER_return_value));

rci_t mzd_first_zero_row(mzd_t const *A)
__CPROVER_requires(REQ_mzd_first_zero_row(A))
__CPROVER_assigns()
__CPROVER_ensures(ENS1_mzd_first_zero_row(A, __CPROVER_return_value));

int mzd_find_pivot(mzd_t const *A, rci_t start_row, rci_t start_col, rci_t *r, rci_t *c)
__CPROVER_requires(REQ_mzd_find_pivot(A, start_row, start_col, r, c) && __CPROVER_is_fresh(r, sizeof(rci_t)) && __CPROVER_is_fresh(c, sizeof(rci_t)))
__CPROVER_assigns(*r, *c)
__CPROVER_ensures(ENS1_mzd_find_pivot(A, start_row, start_col, r, c, __CPROVER_return_value))
__CPROVER_ensures(ENS2_mzd_find_pivot(A, start_row, start_col, r, c, __CPROVER_return_value));
#endif
#endif
