/* Spec-side linear algebra over GF(2) on small cell arrays (never calls library code).
 * Dimensions are compile-time constants of the instance: VR x VC is the largest matrix handled. */
#ifndef ALG_SPEC_H
#define ALG_SPEC_H
#include "mzd_contracts.h"
#ifndef VR
#define VR 8
#endif
#ifndef VC
#define VC 8
#endif
typedef struct {
  int nr, nc;
  unsigned char a[VR][VC];
} vp_mat_t;

static inline void vp_read(vp_mat_t *S, mzd_t const *M) {
  S->nr = M->nrows;
  S->nc = M->ncols;
  for (int i = 0; i < VR; ++i)
    for (int j = 0; j < VC; ++j) S->a[i][j] = (i < M->nrows && j < M->ncols) ? (unsigned char)VP_BIT(M, i, j) : 0;
}
static inline void vp_mul(vp_mat_t *C, vp_mat_t const *A, vp_mat_t const *B) {
  C->nr = A->nr;
  C->nc = B->nc;
  for (int i = 0; i < VR; ++i)
    for (int j = 0; j < VC; ++j) {
      unsigned char s = 0;
      for (int k = 0; k < VC && k < VR; ++k)
        if (k < A->nc) s ^= A->a[i][k] & B->a[k][j];
      C->a[i][j] = (i < A->nr && j < B->nc) ? s : 0;
    }
}
static inline int vp_eq(vp_mat_t const *A, vp_mat_t const *B) {
  int eq = (A->nr == B->nr && A->nc == B->nc);
  for (int i = 0; i < VR; ++i)
    for (int j = 0; j < VC; ++j) eq = eq && A->a[i][j] == B->a[i][j];
  return eq;
}
/* NOTE: no array is ever indexed with a symbolic value in this file (row/column numbers that depend on the data are
 * handled by comparing a concrete loop counter with them): symbolic indices into the cell arrays made the formulas
 * explode (measured: 3x5 elimination out of memory at 16 GB, seconds in this form). */
static inline void vp_swap_rows(vp_mat_t *S, int r1, int r2) {
  for (int j = 0; j < VC; ++j) {
    unsigned char v1 = 0, v2 = 0;
    for (int i = 0; i < VR; ++i) {
      if (i == r1) v1 = S->a[i][j];
      if (i == r2) v2 = S->a[i][j];
    }
    for (int i = 0; i < VR; ++i) {
      if (i == r1)
        S->a[i][j] = v2;
      else if (i == r2)
        S->a[i][j] = v1;
    }
  }
}
static inline void vp_swap_cols(vp_mat_t *S, int c1, int c2) {
  for (int i = 0; i < VR; ++i) {
    unsigned char v1 = 0, v2 = 0;
    for (int j = 0; j < VC; ++j) {
      if (j == c1) v1 = S->a[i][j];
      if (j == c2) v2 = S->a[i][j];
    }
    for (int j = 0; j < VC; ++j) {
      if (j == c1)
        S->a[i][j] = v2;
      else if (j == c2)
        S->a[i][j] = v1;
    }
  }
}
/* textbook reduction to the unique reduced row echelon form; returns the rank, piv[t] = t-th pivot column */
static inline int vp_rref(vp_mat_t *S, int piv[VR]) {
  int r = 0;
  for (int t = 0; t < VR; ++t) piv[t] = -1;
  for (int c = 0; c < VC; ++c) {
    if (c >= S->nc || r >= S->nr) continue;
    int p = -1;
    for (int i = VR - 1; i >= 0; --i)
      if (i >= r && i < S->nr && S->a[i][c]) p = i;
    if (p < 0) continue;
    vp_swap_rows(S, r, p);
    /* the pivot row (row number r, data dependent) is fetched with a concrete-index scan */
    unsigned char prow[VC];
    for (int j = 0; j < VC; ++j) {
      prow[j] = 0;
      for (int i = 0; i < VR; ++i)
        if (i == r) prow[j] = S->a[i][j];
    }
    for (int i = 0; i < VR; ++i)
      if (i != r && i < S->nr && S->a[i][c])
        for (int j = 0; j < VC; ++j) S->a[i][j] ^= prow[j];
    for (int t = 0; t < VR; ++t)
      if (t == r) piv[t] = c;
    r++;
  }
  return r;
}
static inline int vp_rank(vp_mat_t const *S) {
  vp_mat_t T = *S;
  int piv[VR];
  return vp_rref(&T, piv);
}
/* row echelon form: the leading column of each non-zero row is strictly right of the one above; zero rows last */
static inline int vp_is_ref(vp_mat_t const *S) {
  int ok = 1, last = -1, zero_seen = 0;
  for (int i = 0; i < VR; ++i) {
    if (i >= S->nr) continue;
    int lead = -1;
    for (int j = VC - 1; j >= 0; --j)
      if (j < S->nc && S->a[i][j]) lead = j;
    if (lead < 0)
      zero_seen = 1;
    else {
      ok   = ok && !zero_seen && lead > last;
      last = lead;
    }
  }
  return ok;
}
static inline void vp_identity(vp_mat_t *S, int n) {
  S->nr = S->nc = n;
  for (int i = 0; i < VR; ++i)
    for (int j = 0; j < VC; ++j) S->a[i][j] = (i == j && i < n);
}
#endif
