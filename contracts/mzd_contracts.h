/* Contracts for the row/column/bit primitives of mzd.h and the data-movement / observer routines
 * of mzd.c (properties C13, C17, C08; carriers of C09, C10, C11).
 *
 * Conventions
 *   - ghost word (vg_r, vg_w) ranges over the WHOLE block the destination lives in (rows/words are
 *     relative to M->data and may be negative or beyond the view): one clause gives value and frame.
 *   - ghost bit vg_b in 0..63 where a bit-level statement is more natural.
 *   - (vh_r, vh_w), (vk_r, vk_w): ghost words of the 2nd / 3rd operand block ("operand unchanged").
 *   - top-level post-conditions are transcribed from the property statements (cells), helper
 *     pre-conditions from the code and its call sites.
 *   REQ_f / ENSn_f are plain C expressions (with VP_OLD) so that the native replay evaluates the
 *   same text.
 */
#ifndef MZD_CONTRACTS_H
#define MZD_CONTRACTS_H
#include "vp_spec.h"

extern int vg_r, vg_w, vg_b, vh_r, vh_w, vk_r, vk_w, vg_i, vg_j;

#define VP_BITOF(x, i) ((int)(((x) >> (i)) & 1))
#define VP_CLAMP(x, lo, hi) ((x) < (lo) ? (lo) : ((x) > (hi) ? (hi) : (x)))
#define VP_ROWOK(M, r) ((r) >= 0 && (r) < (M)->nrows)
#define VP_COLOK(M, c) ((c) >= 0 && (c) < (M)->ncols)
#define VP_NONEMPTY(M) ((M)->nrows >= 1 && (M)->ncols >= 1)
#define VP_GBIT_OK (vg_b >= 0 && vg_b < 64)
/* current / old value of the ghost word of M, of the 2nd and 3rd operand */
#define VP_G(M) VP_W(M, vg_r, vg_w)
#define VP_G0(M) VP_W0(M, vg_r, vg_w)
#define VP_H(M) VP_W(M, vh_r, vh_w)
#define VP_H0(M) VP_W0(M, vh_r, vh_w)
#define VP_K(M) VP_W(M, vk_r, vk_w)
#define VP_K0(M) VP_W0(M, vk_r, vk_w)
#define VP_UNCHANGED_H(M) (VP_H(M) == VP_H0(M))
#define VP_UNCHANGED_K(M) (VP_K(M) == VP_K0(M))
/* ghost word lies in a row/word of the view */
#define VP_G_IN(M) VP_IN_VIEW(M, vg_r, vg_w)

/* ------------------------------------------------------------------ _mzd_row_swap / mzd_row_swap
 * rows rowa and rowb exchange their cells in words >= startblock; nothing else changes. */
#define VP_SWAPMASK(M, sb) ((vg_w) >= (sb) ? VP_CELLMASK(M, vg_w) : (vp_word)0)
#define REQ__mzd_row_swap(M, rowa, rowb, sb)                                                       \
  (VP_HDR(M) && VP_NONEMPTY(M) && VP_ROWOK(M, rowa) && VP_ROWOK(M, rowb) && (sb) >= 0 && VP_GHOST_OK(M, vg_r, vg_w))
#define ENS1__mzd_row_swap(M, rowa, rowb, sb)                                                      \
  VP_IMP(vg_r == (rowa), VP_G(M) == ((VP_G0(M) & ~VP_SWAPMASK(M, sb)) | (VP_W0(M, rowb, vg_w) & VP_SWAPMASK(M, sb))))
#define ENS2__mzd_row_swap(M, rowa, rowb, sb)                                                      \
  VP_IMP(vg_r == (rowb), VP_G(M) == ((VP_G0(M) & ~VP_SWAPMASK(M, sb)) | (VP_W0(M, rowa, vg_w) & VP_SWAPMASK(M, sb))))
#define ENS3__mzd_row_swap(M, rowa, rowb, sb) VP_IMP(vg_r != (rowa) && vg_r != (rowb), VP_G(M) == VP_G0(M))

/* ------------------------------------------------------------------ mzd_col_swap_in_rows / mzd_col_swap
 * bit-level: in rows [start_row, stop_row) cell cola and cell colb are exchanged. */
#define VP_GCOL (64 * vg_w + vg_b)
/* ghost bit (vg_r, vg_w, vg_b) is a cell of A in a row >= r0 */
#define VP_GCELL(A, r0) (VP_ROWOK(A, vg_r) && vg_r >= (r0) && vg_w >= 0 && VP_GCOL < (A)->ncols)
#define VP_OLDBIT_AT(M, r, c) ((int)((VP_W0(M, r, (c) / 64) >> ((c) % 64)) & 1))
#define REQ_mzd_col_swap_in_rows(M, cola, colb, r0, r1)                                            \
  (VP_HDR(M) && VP_NONEMPTY(M) && VP_COLOK(M, cola) && VP_COLOK(M, colb) && 0 <= (r0) && (r0) <= (r1) && (r1) <= (M)->nrows &&   \
   VP_GHOST_OK(M, vg_r, vg_w) && VP_GBIT_OK)
#define VP_INROWS(r0, r1) (vg_r >= (r0) && vg_r < (r1))
#define ENS1_mzd_col_swap_in_rows(M, cola, colb, r0, r1)                                           \
  VP_IMP(VP_INROWS(r0, r1) && vg_w >= 0 && VP_GCOL == (cola), VP_BITOF(VP_G(M), vg_b) == VP_OLDBIT_AT(M, vg_r, colb))
#define ENS2_mzd_col_swap_in_rows(M, cola, colb, r0, r1)                                           \
  VP_IMP(VP_INROWS(r0, r1) && vg_w >= 0 && VP_GCOL == (colb), VP_BITOF(VP_G(M), vg_b) == VP_OLDBIT_AT(M, vg_r, cola))
#define ENS3_mzd_col_swap_in_rows(M, cola, colb, r0, r1)                                           \
  VP_IMP(!(VP_INROWS(r0, r1) && vg_w >= 0 && (VP_GCOL == (cola) || VP_GCOL == (colb))), VP_BITOF(VP_G(M), vg_b) == VP_BITOF(VP_G0(M), vg_b))

/* ------------------------------------------------------------------ mzd_row_add_offset / mzd_row_add
 * M[dst][j] ^= M[src][j] for coloffset <= j < ncols, nothing else (dst != src: derived pre-condition). */
#define VP_ADDMASK(M, c0) (VP_FROMCOL(c0, vg_w) & VP_CELLMASK(M, vg_w))
#define REQ_mzd_row_add_offset(M, dst, src, c0)                                                    \
  (VP_HDR(M) && VP_NONEMPTY(M) && VP_ROWOK(M, dst) && VP_ROWOK(M, src) && (dst) != (src) && VP_COLOK(M, c0) && VP_GHOST_OK(M, vg_r, vg_w))
#define ENS1_mzd_row_add_offset(M, dst, src, c0)                                                   \
  VP_IMP(vg_r == (dst), VP_G(M) == (VP_G0(M) ^ (VP_W0(M, src, vg_w) & VP_ADDMASK(M, c0))))
#define ENS2_mzd_row_add_offset(M, dst, src, c0) VP_IMP(vg_r != (dst), VP_G(M) == VP_G0(M))

/* ------------------------------------------------------------------ mzd_row_clear_offset
 * M[row][j] = 0 for coloffset <= j < ncols, nothing else. */
#define REQ_mzd_row_clear_offset(M, row, c0) (VP_HDR(M) && VP_NONEMPTY(M) && VP_ROWOK(M, row) && VP_COLOK(M, c0) && VP_GHOST_OK(M, vg_r, vg_w))
#define ENS1_mzd_row_clear_offset(M, row, c0) VP_IMP(vg_r == (row), VP_G(M) == (VP_G0(M) & ~VP_ADDMASK(M, c0)))
#define ENS2_mzd_row_clear_offset(M, row, c0) VP_IMP(vg_r != (row), VP_G(M) == VP_G0(M))

/* ------------------------------------------------------------------ mzd_read_bit / mzd_write_bit */
#define REQ_mzd_read_bit(M, row, col) (VP_HDR(M) && VP_ROWOK(M, row) && VP_COLOK(M, col))
#define ENS1_mzd_read_bit(M, row, col, ret) ((ret) == VP_BIT(M, row, col))
#define REQ_mzd_write_bit(M, row, col, value)                                                      \
  (VP_HDR(M) && VP_ROWOK(M, row) && VP_COLOK(M, col) && ((value) == 0 || (value) == 1) && VP_GHOST_OK(M, vg_r, vg_w) && VP_GBIT_OK)
#define ENS1_mzd_write_bit(M, row, col, value)                                                     \
  VP_IMP(vg_r == (row) && vg_w >= 0 && VP_GCOL == (col), VP_BITOF(VP_G(M), vg_b) == (value))
#define ENS2_mzd_write_bit(M, row, col, value)                                                     \
  VP_IMP(!(vg_r == (row) && vg_w >= 0 && VP_GCOL == (col)), VP_BITOF(VP_G(M), vg_b) == VP_BITOF(VP_G0(M), vg_b))

/* ------------------------------------------------------------------ mzd_read_bits(_int): n cells from (x,y) on */
#define VP_RANGE_OK(M, y, n) ((y) >= 0 && (y) < (M)->ncols && (n) >= 1 && (n) <= 64 && (n) <= (M)->ncols - (y))
#define REQ_mzd_read_bits(M, x, y, n) (VP_HDR(M) && VP_ROWOK(M, x) && VP_RANGE_OK(M, y, n) && VP_GBIT_OK)
#define ENS1_mzd_read_bits(M, x, y, n, ret) VP_IMP(vg_b < (n), VP_BITOF(ret, vg_b) == VP_BIT(M, x, (y) + vg_b))
#define ENS2_mzd_read_bits(M, x, y, n, ret) VP_IMP(vg_b >= (n), VP_BITOF(ret, vg_b) == 0)

/* ------------------------------------------------------------------ mzd_xor_bits / mzd_clear_bits
 * cells (x, y+t), t < n: xor with bit t of values / cleared; every other bit of the block unchanged.
 * xor: `values` carries only n bits (derived: higher bits would be xored into the next cells). */
#define VP_GCOL_IN(x, y, n) (vg_r == (x) && vg_w >= 0 && VP_GCOL >= (y) && VP_GCOL < (y) + (n))
#define REQ_mzd_xor_bits(M, x, y, n, values)                                                       \
  (VP_HDR(M) && VP_ROWOK(M, x) && VP_RANGE_OK(M, y, n) && ((n) == 64 || ((values) >> ((n) < 64 ? (n) : 0)) == 0) &&      \
   VP_GHOST_OK(M, vg_r, vg_w) && VP_GBIT_OK)
#define ENS1_mzd_xor_bits(M, x, y, n, values)                                                      \
  VP_IMP(VP_GCOL_IN(x, y, n), VP_BITOF(VP_G(M), vg_b) == (VP_BITOF(VP_G0(M), vg_b) ^ VP_BITOF(values, (VP_GCOL - (y)) & 63)))
#define ENS2_mzd_xor_bits(M, x, y, n, values) VP_IMP(!VP_GCOL_IN(x, y, n), VP_BITOF(VP_G(M), vg_b) == VP_BITOF(VP_G0(M), vg_b))
#define REQ_mzd_clear_bits(M, x, y, n)                                                             \
  (VP_HDR(M) && VP_ROWOK(M, x) && VP_RANGE_OK(M, y, n) && VP_GHOST_OK(M, vg_r, vg_w) && VP_GBIT_OK)
#define ENS1_mzd_clear_bits(M, x, y, n) VP_IMP(VP_GCOL_IN(x, y, n), VP_BITOF(VP_G(M), vg_b) == 0)
#define ENS2_mzd_clear_bits(M, x, y, n) VP_IMP(!VP_GCOL_IN(x, y, n), VP_BITOF(VP_G(M), vg_b) == VP_BITOF(VP_G0(M), vg_b))

/* ------------------------------------------------------------------ mzd_combine_even(_in_place) / mzd_combine
 * word kernels behind every row addition: with N = A->width - a_sb words,
 *   C[c_row] word c_sb+t = A[a_row] word a_sb+t ^ B[b_row] word b_sb+t       for t in [0, N),
 * the last of them (t == N-1) restricted to the cells of C (C->high_bitmask); every other bit unchanged.
 * Pre-conditions from the call sites: the range ends at C's last word; the B range lies inside its row. */
#define VP_CMB_N(A, a_sb) ((A)->width - (a_sb))
#define VP_CMB_T(c_sb) (vg_w - (c_sb))
#define VP_CMB_TC(A, a_sb, c_sb) (VP_CMB_T(c_sb) < 0 ? 0 : (VP_CMB_T(c_sb) >= VP_CMB_N(A, a_sb) ? VP_CMB_N(A, a_sb) - 1 : VP_CMB_T(c_sb)))
#define VP_CMB_HIT(C, c_row, c_sb, A, a_sb) (vg_r == (c_row) && VP_CMB_T(c_sb) >= 0 && VP_CMB_T(c_sb) < VP_CMB_N(A, a_sb))
#define VP_CMB_MASK(C, c_sb, A, a_sb) (VP_CMB_T(c_sb) == VP_CMB_N(A, a_sb) - 1 ? (vp_word)(C)->high_bitmask : VP_ONES)
#define REQ_mzd_combine_even(C, c_row, c_sb, A, a_row, a_sb, B, b_row, b_sb)                       \
  (VP_HDR(C) && VP_HDR(A) && VP_HDR(B) && VP_ROWOK(C, c_row) && VP_ROWOK(A, a_row) && VP_ROWOK(B, b_row) && (c_sb) >= 0 && (a_sb) >= 0 &&     \
   (b_sb) >= 0 && VP_CMB_N(A, a_sb) >= 1 && (c_sb) + VP_CMB_N(A, a_sb) == (C)->width && (b_sb) + VP_CMB_N(A, a_sb) <= (B)->width &&           \
   VP_GHOST_OK(C, vg_r, vg_w))
#define ENS1_mzd_combine_even(C, c_row, c_sb, A, a_row, a_sb, B, b_row, b_sb)                      \
  VP_IMP(VP_CMB_HIT(C, c_row, c_sb, A, a_sb),                                                      \
         VP_G(C) == ((VP_G0(C) & ~VP_CMB_MASK(C, c_sb, A, a_sb)) |                                 \
                     ((VP_W0(A, a_row, (a_sb) + VP_CMB_TC(A, a_sb, c_sb)) ^ VP_W0(B, b_row, (b_sb) + VP_CMB_TC(A, a_sb, c_sb))) & VP_CMB_MASK(C, c_sb, A, a_sb))))
#define ENS2_mzd_combine_even(C, c_row, c_sb, A, a_row, a_sb, B, b_row, b_sb) VP_IMP(!VP_CMB_HIT(C, c_row, c_sb, A, a_sb), VP_G(C) == VP_G0(C))

/* ------------------------------------------------------------------ mzd_copy_row
 * cells [0, A->ncols) of row i of B := row j of A; everything else unchanged (B->ncols >= A->ncols). */
#define REQ_mzd_copy_row(B, i, A, j)                                                               \
  (VP_HDR(B) && VP_HDR(A) && VP_NONEMPTY(A) && VP_ROWOK(B, i) && VP_ROWOK(A, j) && (B)->ncols >= (A)->ncols && VP_GHOST_OK(B, vg_r, vg_w) &&    \
   VP_GHOST_OK(A, vh_r, vh_w))
#define ENS1_mzd_copy_row(B, i, A, j)                                                              \
  VP_IMP(vg_r == (i), VP_G(B) == ((VP_G0(B) & ~VP_CELLMASK(A, vg_w)) | (VP_W0(A, j, VP_CLAMP(vg_w, 0, (A)->width - 1)) & VP_CELLMASK(A, vg_w))))
#define ENS2_mzd_copy_row(B, i, A, j) VP_IMP(vg_r != (i), VP_G(B) == VP_G0(B))

#ifndef VP_NATIVE
/* ---- contract declarations (re-declarations of the real functions; /repo is untouched) ---- */
static inline void _mzd_row_swap(mzd_t *M, rci_t const rowa, rci_t const rowb, wi_t const startblock)
__CPROVER_requires(REQ__mzd_row_swap(M, rowa, rowb, startblock))
__CPROVER_assigns(__CPROVER_object_whole(M->data))
__CPROVER_ensures(ENS1__mzd_row_swap(M, rowa, rowb, startblock))
__CPROVER_ensures(ENS2__mzd_row_swap(M, rowa, rowb, startblock))
__CPROVER_ensures(ENS3__mzd_row_swap(M, rowa, rowb, startblock));

static inline void mzd_row_swap(mzd_t *M, rci_t const rowa, rci_t const rowb)
__CPROVER_requires(REQ__mzd_row_swap(M, rowa, rowb, 0))
__CPROVER_assigns(__CPROVER_object_whole(M->data))
__CPROVER_ensures(ENS1__mzd_row_swap(M, rowa, rowb, 0))
__CPROVER_ensures(ENS2__mzd_row_swap(M, rowa, rowb, 0))
__CPROVER_ensures(ENS3__mzd_row_swap(M, rowa, rowb, 0));

static inline void mzd_col_swap_in_rows(mzd_t *M, rci_t const cola, rci_t const colb, rci_t const start_row, rci_t const stop_row)
__CPROVER_requires(REQ_mzd_col_swap_in_rows(M, cola, colb, start_row, stop_row))
__CPROVER_assigns(__CPROVER_object_whole(M->data))
__CPROVER_ensures(ENS1_mzd_col_swap_in_rows(M, cola, colb, start_row, stop_row))
__CPROVER_ensures(ENS2_mzd_col_swap_in_rows(M, cola, colb, start_row, stop_row))
__CPROVER_ensures(ENS3_mzd_col_swap_in_rows(M, cola, colb, start_row, stop_row));

static inline void mzd_col_swap(mzd_t *M, rci_t const cola, rci_t const colb)
__CPROVER_requires(REQ_mzd_col_swap_in_rows(M, cola, colb, 0, M->nrows))
__CPROVER_assigns(__CPROVER_object_whole(M->data))
__CPROVER_ensures(ENS1_mzd_col_swap_in_rows(M, cola, colb, 0, M->nrows))
__CPROVER_ensures(ENS2_mzd_col_swap_in_rows(M, cola, colb, 0, M->nrows))
__CPROVER_ensures(ENS3_mzd_col_swap_in_rows(M, cola, colb, 0, M->nrows));

static inline void mzd_row_add_offset(mzd_t *M, rci_t dstrow, rci_t srcrow, rci_t coloffset)
__CPROVER_requires(REQ_mzd_row_add_offset(M, dstrow, srcrow, coloffset))
__CPROVER_assigns(__CPROVER_object_whole(M->data))
__CPROVER_ensures(ENS1_mzd_row_add_offset(M, dstrow, srcrow, coloffset))
__CPROVER_ensures(ENS2_mzd_row_add_offset(M, dstrow, srcrow, coloffset));

void mzd_row_add(mzd_t *M, rci_t const sourcerow, rci_t const destrow)
__CPROVER_requires(REQ_mzd_row_add_offset(M, destrow, sourcerow, 0))
__CPROVER_assigns(__CPROVER_object_whole(M->data))
__CPROVER_ensures(ENS1_mzd_row_add_offset(M, destrow, sourcerow, 0))
__CPROVER_ensures(ENS2_mzd_row_add_offset(M, destrow, sourcerow, 0));

void mzd_row_clear_offset(mzd_t *M, rci_t const row, rci_t const coloffset)
__CPROVER_requires(REQ_mzd_row_clear_offset(M, row, coloffset))
__CPROVER_assigns(__CPROVER_object_whole(M->data))
__CPROVER_ensures(ENS1_mzd_row_clear_offset(M, row, coloffset))
__CPROVER_ensures(ENS2_mzd_row_clear_offset(M, row, coloffset));

static inline BIT mzd_read_bit(mzd_t const *M, rci_t const row, rci_t const col)
__CPROVER_requires(REQ_mzd_read_bit(M, row, col))
__CPROVER_assigns()
__CPROVER_ensures(ENS1_mzd_read_bit(M, row, col, __CPROVER_return_value));

static inline void mzd_write_bit(mzd_t *M, rci_t const row, rci_t const col, BIT const value)
__CPROVER_requires(REQ_mzd_write_bit(M, row, col, value))
__CPROVER_assigns(__CPROVER_object_whole(M->data))
__CPROVER_ensures(ENS1_mzd_write_bit(M, row, col, value))
__CPROVER_ensures(ENS2_mzd_write_bit(M, row, col, value));

static inline word mzd_read_bits(mzd_t const *M, rci_t const x, rci_t const y, int const n)
__CPROVER_requires(REQ_mzd_read_bits(M, x, y, n))
__CPROVER_assigns()
__CPROVER_ensures(ENS1_mzd_read_bits(M, x, y, n, __CPROVER_return_value))
__CPROVER_ensures(ENS2_mzd_read_bits(M, x, y, n, __CPROVER_return_value));

static inline void mzd_xor_bits(mzd_t *M, rci_t const x, rci_t const y, int const n, word values)
__CPROVER_requires(REQ_mzd_xor_bits(M, x, y, n, values))
__CPROVER_assigns(__CPROVER_object_whole(M->data))
__CPROVER_ensures(ENS1_mzd_xor_bits(M, x, y, n, values))
__CPROVER_ensures(ENS2_mzd_xor_bits(M, x, y, n, values));

static inline void mzd_clear_bits(mzd_t *M, rci_t const x, rci_t const y, int const n)
__CPROVER_requires(REQ_mzd_clear_bits(M, x, y, n))
__CPROVER_assigns(__CPROVER_object_whole(M->data))
__CPROVER_ensures(ENS1_mzd_clear_bits(M, x, y, n))
__CPROVER_ensures(ENS2_mzd_clear_bits(M, x, y, n));

static inline void mzd_combine_even(mzd_t *C, rci_t const c_row, wi_t const c_startblock, mzd_t const *A, rci_t const a_row, wi_t const a_startblock,
                                    mzd_t const *B, rci_t const b_row, wi_t const b_startblock)
__CPROVER_requires(REQ_mzd_combine_even(C, c_row, c_startblock, A, a_row, a_startblock, B, b_row, b_startblock))
__CPROVER_assigns(__CPROVER_object_whole(C->data))
__CPROVER_ensures(ENS1_mzd_combine_even(C, c_row, c_startblock, A, a_row, a_startblock, B, b_row, b_startblock))
__CPROVER_ensures(ENS2_mzd_combine_even(C, c_row, c_startblock, A, a_row, a_startblock, B, b_row, b_startblock));

static inline void mzd_combine_even_in_place(mzd_t *A, rci_t const a_row, wi_t const a_startblock, mzd_t const *B, rci_t const b_row, wi_t const b_startblock)
__CPROVER_requires(REQ_mzd_combine_even(A, a_row, a_startblock, A, a_row, a_startblock, B, b_row, b_startblock))
__CPROVER_assigns(__CPROVER_object_whole(A->data))
__CPROVER_ensures(ENS1_mzd_combine_even(A, a_row, a_startblock, A, a_row, a_startblock, B, b_row, b_startblock))
__CPROVER_ensures(ENS2_mzd_combine_even(A, a_row, a_startblock, A, a_row, a_startblock, B, b_row, b_startblock));

static inline void mzd_combine(mzd_t *C, rci_t const c_row, wi_t const c_startblock, mzd_t const *A, rci_t const a_row, wi_t const a_startblock,
                               mzd_t const *B, rci_t const b_row, wi_t const b_startblock)
__CPROVER_requires(REQ_mzd_combine_even(C, c_row, c_startblock, A, a_row, a_startblock, B, b_row, b_startblock))
__CPROVER_assigns(__CPROVER_object_whole(C->data))
__CPROVER_ensures(ENS1_mzd_combine_even(C, c_row, c_startblock, A, a_row, a_startblock, B, b_row, b_startblock))
__CPROVER_ensures(ENS2_mzd_combine_even(C, c_row, c_startblock, A, a_row, a_startblock, B, b_row, b_startblock));

void mzd_copy_row(mzd_t *B, rci_t i, mzd_t const *A, rci_t j)
__CPROVER_requires(REQ_mzd_copy_row(B, i, A, j))
__CPROVER_assigns(__CPROVER_object_whole(B->data))
__CPROVER_ensures(ENS1_mzd_copy_row(B, i, A, j))
__CPROVER_ensures(ENS2_mzd_copy_row(B, i, A, j))
__CPROVER_ensures(VP_UNCHANGED_H(A));
#endif

#endif
