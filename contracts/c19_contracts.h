/* Contracts for the word-level kernels of misc.h / parity.h / graycode.c (property C19).
 * Post-conditions are closed forms taken from the property statement; ghost index vg_b ranges
 * over the 64 bit positions (arbitrary ghost == for all). */
#ifndef C19_CONTRACTS_H
#define C19_CONTRACTS_H
#include "vp.h"

extern int vg_b; /* ghost bit / element index */
extern int vg_c; /* second ghost element index */

#define VP_BITOF(x, i) ((int)(((x) >> (i)) & 1))

static inline int vp_parity_of(word x) {
  x ^= x >> 32;
  x ^= x >> 16;
  x ^= x >> 8;
  x ^= x >> 4;
  x ^= x >> 2;
  x ^= x >> 1;
  return (int)(x & 1);
}
/* index of the least significant set bit, 64 for 0 -- by definition (reference loop) */
static inline int vp_lsb(word x) {
  int r = 64;
  for (int k = 63; k >= 0; --k)
    if ((x >> k) & 1) r = k;
  return r;
}

/* ---- m4ri_swap_bits: bit i of the result is bit 63-i of the argument ---- */
#define REQ_m4ri_swap_bits(v) (0 <= vg_b && vg_b < 64)
#define ENS_m4ri_swap_bits(v, ret) (VP_BITOF(ret, vg_b) == VP_BITOF(v, 63 - vg_b))

/* ---- m4ri_parity64: bit i of the result is the parity of buf[i]; buf unchanged ---- */
#define REQ_m4ri_parity64(buf) (0 <= vg_b && vg_b < 64 && VP_R_OK(buf, 64 * sizeof(word)))
#define ENS_m4ri_parity64(buf, ret) (VP_BITOF(ret, vg_b) == vp_parity_of((buf)[vg_b]))

/* ---- m4ri_lesser_LSB(a,b) != 0  <=>  lsb(a) < lsb(b), lsb(0) = 64 ---- */
#define ENS_m4ri_lesser_LSB(a, b, ret) (((ret) != 0) == (vp_lsb(a) < vp_lsb(b)))

/* ---- spread / shrink ----
 * Q[0..length) strictly increasing, base <= Q[i] < base + 64 (the positions of `length` pivots
 * inside one 64-column window starting at column `base`). */
#define VP_Q1(Q, length, base, i)                                                                  \
  ((i) >= (length) || ((Q)[i] >= (base) && (Q)[i] - (base) < 64 && ((i) == 0 || (Q)[(i) > 0 ? (i)-1 : 0] < (Q)[i])))
#define VP_QOK(Q, length, base)                                                                    \
  ((length) >= 1 && (length) <= 16 && (base) >= 0 && (base) <= (1 << 30) && VP_Q1(Q, length, base, 0) &&                  \
   VP_Q1(Q, length, base, 1) && VP_Q1(Q, length, base, 2) && VP_Q1(Q, length, base, 3) &&          \
   VP_Q1(Q, length, base, 4) && VP_Q1(Q, length, base, 5) && VP_Q1(Q, length, base, 6) &&          \
   VP_Q1(Q, length, base, 7) && VP_Q1(Q, length, base, 8) && VP_Q1(Q, length, base, 9) &&          \
   VP_Q1(Q, length, base, 10) && VP_Q1(Q, length, base, 11) && VP_Q1(Q, length, base, 12) &&       \
   VP_Q1(Q, length, base, 13) && VP_Q1(Q, length, base, 14) && VP_Q1(Q, length, base, 15))
/* bit vg_b of spread(from) = OR_i<length [Q[i]-base == vg_b] & bit i of from */
#define VP_SP1(from, Q, length, base, i) ((i) < (length) && (Q)[i] - (base) == vg_b && VP_BITOF(from, i))
#define VP_SPREAD_BIT(from, Q, length, base)                                                       \
  (VP_SP1(from, Q, length, base, 0) || VP_SP1(from, Q, length, base, 1) || VP_SP1(from, Q, length, base, 2) ||   \
   VP_SP1(from, Q, length, base, 3) || VP_SP1(from, Q, length, base, 4) || VP_SP1(from, Q, length, base, 5) ||   \
   VP_SP1(from, Q, length, base, 6) || VP_SP1(from, Q, length, base, 7) || VP_SP1(from, Q, length, base, 8) ||   \
   VP_SP1(from, Q, length, base, 9) || VP_SP1(from, Q, length, base, 10) || VP_SP1(from, Q, length, base, 11) || \
   VP_SP1(from, Q, length, base, 12) || VP_SP1(from, Q, length, base, 13) || VP_SP1(from, Q, length, base, 14) || \
   VP_SP1(from, Q, length, base, 15))
#define REQ_m4ri_spread_bits(from, Q, length, base) (VP_QOK(Q, length, base) && 0 <= vg_b && vg_b < 64 && VP_R_OK(Q, 16 * sizeof(rci_t)))
#define ENS_m4ri_spread_bits(from, Q, length, base, ret) (VP_BITOF(ret, vg_b) == (VP_SPREAD_BIT(from, Q, length, base) ? 1 : 0))
#define REQ_m4ri_shrink_bits(from, Q, length, base) REQ_m4ri_spread_bits(from, Q, length, base)
/* bit i of shrink(from) = bit Q[i]-base of from for i < length, 0 above */
#define ENS_m4ri_shrink_bits(from, Q, length, base, ret)                                           \
  (VP_BITOF(ret, vg_b) == ((vg_b < (length)) ? VP_BITOF(from, (Q)[vg_b < 16 ? vg_b : 0] - (base)) : 0))

/* ---- Gray code ----
 * helper contract (closed form, derived from the code): m4ri_gray_code(n, l) == n ^ (n >> 1) */
#define VP_GRAY(n) ((n) ^ ((n) >> 1))
#define REQ_m4ri_gray_code(number, length) (1 <= (length) && (length) <= 16 && 0 <= (number) && (number) < (1 << (length)))
#define ENS_m4ri_gray_code(number, length, ret) ((ret) == VP_GRAY(number))
/* top-level contract of the code book builder, from the property statement: ord lists each l-bit value
 * exactly once (two ghosts), neighbours differ exactly in bit inc[g] */
#define REQ_m4ri_build_code(ord, inc, l)                                                           \
  (1 <= (l) && (l) <= 16 && 0 <= vg_b && vg_b < (1 << (l)) && 0 <= vg_c && vg_c < (1 << (l)))
#define ENS1_m4ri_build_code(ord, inc, l) (0 <= (ord)[vg_b] && (ord)[vg_b] < (1 << (l)))
#define ENS2_m4ri_build_code(ord, inc, l) (vg_b == vg_c || (ord)[vg_b] != (ord)[vg_c])
#define ENS3_m4ri_build_code(ord, inc, l)                                                          \
  (vg_c != vg_b + 1 || (0 <= (inc)[vg_b] && (inc)[vg_b] < (l) && ((ord)[vg_b] ^ (ord)[vg_c]) == (1 << (inc)[vg_b])))

#ifndef VP_NATIVE
#ifdef M4RI_GRAYFLEX_H
int m4ri_gray_code(int number, int length)
__CPROVER_requires(REQ_m4ri_gray_code(number, length))
__CPROVER_assigns()
__CPROVER_ensures(ENS_m4ri_gray_code(number, length, __CPROVER_return_value));

void m4ri_build_code(int *ord, int *inc, int l)
__CPROVER_requires(REQ_m4ri_build_code(ord, inc, l))
__CPROVER_requires(__CPROVER_rw_ok(ord, sizeof(int) << l) && __CPROVER_rw_ok(inc, sizeof(int) << l) && !__CPROVER_same_object(ord, inc))
__CPROVER_assigns(__CPROVER_object_whole(ord), __CPROVER_object_whole(inc))
__CPROVER_ensures(ENS1_m4ri_build_code(ord, inc, l))
__CPROVER_ensures(ENS2_m4ri_build_code(ord, inc, l))
__CPROVER_ensures(ENS3_m4ri_build_code(ord, inc, l));
#endif

static inline word m4ri_swap_bits(word v)
__CPROVER_requires(REQ_m4ri_swap_bits(v))
__CPROVER_assigns()
__CPROVER_ensures(ENS_m4ri_swap_bits(v, __CPROVER_return_value));

#ifdef M4RI_PARITY_H
static inline word m4ri_parity64(word *buf)
__CPROVER_requires(REQ_m4ri_parity64(buf))
__CPROVER_assigns()
__CPROVER_ensures(ENS_m4ri_parity64(buf, __CPROVER_return_value));
#endif

static inline int m4ri_lesser_LSB(word a, word b)
__CPROVER_assigns()
__CPROVER_ensures(ENS_m4ri_lesser_LSB(a, b, __CPROVER_return_value));

static inline word m4ri_spread_bits(word const from, rci_t *const Q, int const length, int const base)
__CPROVER_requires(REQ_m4ri_spread_bits(from, Q, length, base))
__CPROVER_assigns()
__CPROVER_ensures(ENS_m4ri_spread_bits(from, Q, length, base, __CPROVER_return_value));

static inline word m4ri_shrink_bits(word const from, rci_t *const Q, int const length, int const base)
__CPROVER_requires(REQ_m4ri_shrink_bits(from, Q, length, base))
__CPROVER_assigns()
__CPROVER_ensures(ENS_m4ri_shrink_bits(from, Q, length, base, __CPROVER_return_value));
#endif

#endif
