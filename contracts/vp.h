/* vp.h -- dual-mode harness vocabulary.
 *
 * The same harness + contract text is used twice:
 *   - under goto-cc/goto-instrument/cbmc (default): inputs are uninitialised locals
 *     (non-deterministic), contracts are __CPROVER_requires/ensures clauses enforced
 *     by `goto-instrument --dfcc`;
 *   - natively (-DVP_NATIVE, gcc + ASan/UBSan): inputs are loaded from a replay file
 *     that the driver extracted from CBMC's counterexample trace, the real function
 *     is called and the *same* REQ_/ENS_ macro text is evaluated in C.
 *
 * Nothing in here is library code; specs read the representation directly.
 */
#ifndef VP_H
#define VP_H
#include <stddef.h>
#include <stdint.h>

#ifdef VP_NATIVE
#include <stdio.h>
#include <stdlib.h>
#include <string.h>
void vp_load(const char *name, void *dst, size_t elsz, size_t n);
void vp_reject(const char *what, const char *file, int line);
void vp_fail(const char *clause, const char *file, int line);
void vp_snapshot_all(void);
void vp_register(void *hdr, void *blk, size_t nbytes);
void *vp_old_ptr(const void *cur_ptr); /* address inside a registered block -> same offset in its snapshot */
#define VP_IN(T, name)                                                                             \
  T name;                                                                                          \
  vp_load(#name, &name, sizeof(T), 1)
#define VP_IN_ARR(T, name, n)                                                                      \
  T name[n] __attribute__((aligned(64)));                                                          \
  vp_load(#name, name, sizeof(T), (n))
#define VP_ASSUME(c)                                                                               \
  do {                                                                                             \
    if (!(c)) vp_reject(#c, __FILE__, __LINE__);                                                   \
  } while (0)
#define VP_ASSERT(c, msg)                                                                          \
  do {                                                                                             \
    if (!(c)) vp_fail(msg, __FILE__, __LINE__);                                                    \
  } while (0)
#define VP_COVER(c) ((void)0)
/* value of lvalue expression e (which must designate memory inside a registered block) before the call */
#define VP_OLD(e) (*(__typeof__(&(e)))vp_old_ptr(&(e)))
#define VP_PRE(c) VP_ASSUME(c)
#define VP_SNAPSHOT() vp_snapshot_all()
#define VP_POST(c) VP_ASSERT(c, #c)
#define VP_REGISTER(hdr, blk, nbytes) vp_register(hdr, blk, nbytes)
#define VP_R_OK(p, n) 1
#define VP_RW_OK(p, n) 1
#define VP_CANARY() ((void)0)
#else
#define VP_IN(T, name) T name
#define VP_IN_ARR(T, name, n) T name[n] __attribute__((aligned(64)))
#define VP_ASSUME(c) __CPROVER_assume(c)
#define VP_ASSERT(c, msg) __CPROVER_assert(c, msg)
#define VP_COVER(c) __CPROVER_cover(c)
#define VP_R_OK(p, n) __CPROVER_r_ok(p, n)
#define VP_RW_OK(p, n) __CPROVER_rw_ok(p, n)
#ifdef VP_ASSERT_MODE
/* CBMC without contract instrumentation: the same REQ_/ENS_ text is assumed before / asserted after the call
 * by the harness; "old" values come from shadow copies of the registered blocks (see vp_spec.h) */
#include <stdlib.h>
#include <string.h>
#define VP_NREG 10
typedef unsigned long long vp_w64;
static void *vp_reg_hdr[VP_NREG];
static vp_w64 *vp_reg_blk[VP_NREG];
static size_t vp_reg_n[VP_NREG]; /* words */
static vp_w64 *vp_reg_old[VP_NREG];
static int vp_reg_cnt;
static inline void vp_register(void *hdr, void *blk, size_t nbytes) {
  vp_reg_hdr[vp_reg_cnt] = hdr;
  vp_reg_blk[vp_reg_cnt] = (vp_w64 *)blk;
  vp_reg_n[vp_reg_cnt]   = nbytes / sizeof(vp_w64);
  vp_reg_cnt++;
}
/* shadow copies are word-typed objects filled by an array copy (a byte-typed memcpy target makes every
 * later word read a byte-extract over the whole block) */
static inline void vp_snapshot_all(void) {
  for (int k = 0; k < VP_NREG; ++k)
    if (k < vp_reg_cnt) {
      vp_reg_old[k] = malloc(sizeof(vp_w64) * vp_reg_n[k]);
      __CPROVER_assume(vp_reg_old[k] != NULL);
      __CPROVER_array_copy(vp_reg_old[k], vp_reg_blk[k]);
    }
}
#define VP_PRE(c) __CPROVER_assume(c)
#define VP_SNAPSHOT() vp_snapshot_all()
#define VP_POST(c) __CPROVER_assert(c, "contract clause: " #c)
#define VP_REGISTER(hdr, blk, nbytes) vp_register(hdr, blk, nbytes)
#else
#define VP_OLD(e) __CPROVER_old(e)
#define VP_PRE(c) ((void)0)
#define VP_SNAPSHOT() ((void)0)
#define VP_POST(c) ((void)0)
#define VP_REGISTER(hdr, blk, nbytes) ((void)0)
#endif
/* vacuity guard: compiled with -DVP_CANARY this assertion placed after the call MUST fail (the call is
 * reachable under the pre-condition and returns); the driver treats a passing canary as a broken check */
#ifdef VP_CANARY
#define VP_CANARY() __CPROVER_assert(0, "canary: call returns under the pre-condition")
#else
#define VP_CANARY() ((void)0)
#endif
#endif

#define VP_IMP(a, b) (!(a) || (b))
/* n low bits set; n == 0 means the full word (a row whose ncols is a multiple of 64) */
#define VP_LMASK(n) ((n) == 0 ? ~0ULL : ((1ULL << (n)) - 1))

#endif
