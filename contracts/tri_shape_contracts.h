/* Layer S, second family: the block-recursive orchestration of triangular.c (TRSM, triangular inversion) under shape /
 * window-containment / header-balance contracts.  As in shape_contracts.h matrix data is opaque; all dimensions symbolic.
 * One data fact is carried as ghost state because a callee's contract needs it: vg_tri is the header known to hold an upper
 * triangular matrix with a zero strictly-lower part (mzd_extract_u establishes it; triangular inversion requires it --
 * property C05 speaks of "a unit upper-triangular matrix", and the product with the inverse is only the solution then). */
#ifndef TRI_SHAPE_CONTRACTS_H
#define TRI_SHAPE_CONTRACTS_H
#include "shape_contracts.h"

extern mzd_t const *vg_tri;

/* right-hand TRSM: T square n x n, B m x n; left-hand: T square m x m, B m x n; B not empty */
#define TRSM_R(T, B) (SHP(T) && SHP(B) && NE(B) && (T)->nrows == (T)->ncols && (T)->nrows == (B)->ncols)
/* (left variants: a triangle of order 0 -- rank 0 in the PLUQ solve -- is admitted; B must have columns: with none the base case indexes word -1) */
#define TRSM_L(T, B) (SHP(T) && SHP(B) && (B)->ncols >= 1 && (T)->nrows == (T)->ncols && (T)->ncols == (B)->nrows)
#define CUT_OK(c) ((c) >= 0 && (c) <= (1 << 28))

void _mzd_trsm_upper_right_base(mzd_t const *U, mzd_t *B)
__CPROVER_requires(TRSM_R(U, B) && B->ncols <= 64)
__CPROVER_assigns();

void _mzd_trsm_lower_right_base(mzd_t const *L, mzd_t *B)
__CPROVER_requires(TRSM_R(L, B) && B->ncols <= 64)
__CPROVER_assigns();

void _mzd_trsm_upper_right_trtri(mzd_t const *U, mzd_t *B)
__CPROVER_requires(TRSM_R(U, B))
__CPROVER_assigns(vg_live, vg_tri)
__CPROVER_ensures(vg_live == __CPROVER_old(vg_live));

void _mzd_trsm_upper_right(mzd_t const *U, mzd_t *B, const int cutoff)
__CPROVER_requires(TRSM_R(U, B) && CUT_OK(cutoff))
__CPROVER_assigns(vg_live, vg_tri)
__CPROVER_ensures(vg_live == __CPROVER_old(vg_live));

void _mzd_trsm_lower_right(mzd_t const *L, mzd_t *B, const int cutoff)
__CPROVER_requires(TRSM_R(L, B) && CUT_OK(cutoff))
__CPROVER_assigns(vg_live, vg_tri)
__CPROVER_ensures(vg_live == __CPROVER_old(vg_live));

void _mzd_trsm_lower_left(mzd_t const *L, mzd_t *B, const int cutoff)
__CPROVER_requires(TRSM_L(L, B) && CUT_OK(cutoff))
__CPROVER_assigns(vg_live, vg_tri)
__CPROVER_ensures(vg_live == __CPROVER_old(vg_live));

void _mzd_trsm_upper_left(mzd_t const *U, mzd_t *B, const int cutoff)
__CPROVER_requires(TRSM_L(U, B) && CUT_OK(cutoff))
__CPROVER_assigns(vg_live, vg_tri)
__CPROVER_ensures(vg_live == __CPROVER_old(vg_live));

void _mzd_trsm_lower_left_russian(mzd_t const *L, mzd_t *B, int k)
__CPROVER_requires(TRSM_L(L, B) && k >= 0)
__CPROVER_assigns();

void _mzd_trsm_upper_left_russian(mzd_t const *U, mzd_t *B, int k)
__CPROVER_requires(TRSM_L(U, B) && k >= 0)
__CPROVER_assigns();

/* VP-ASSUMPTION (contract of a dependency, call-site form): _mzd_addmul is called by _mzd_trsm_upper_left with the caller's
 * cutoff unnormalised (0 = default); layer S proves _mzd_addmul_even / _mzd_addsqr_even for cutoff >= 64 only */
mzd_t *_mzd_addmul(mzd_t *C, mzd_t const *A, mzd_t const *B, int cutoff)
__CPROVER_requires(SHP(C) && SHP(A) && SHP(B) && NE(A) && NE(B) && NE(C) && CONFORM(C, A, B) && CUT_OK(cutoff))
__CPROVER_assigns(vg_live)
__CPROVER_ensures(__CPROVER_return_value == C && vg_live == __CPROVER_old(vg_live));

/* U == NULL form only (the one used here): a fresh k x k matrix, k = min(nrows, ncols), strictly-lower part zero */
mzd_t *mzd_extract_u(mzd_t *U, mzd_t const *A)
__CPROVER_requires(U == NULL && SHP(A))
__CPROVER_assigns(vg_live, vg_tri)
__CPROVER_ensures(FRESH_HDR(__CPROVER_return_value) && __CPROVER_return_value->nrows == (A->nrows < A->ncols ? A->nrows : A->ncols) &&
                  __CPROVER_return_value->ncols == __CPROVER_return_value->nrows && !WINDOWED(__CPROVER_return_value))
__CPROVER_ensures(vg_live == __CPROVER_old(vg_live) + 1 && vg_tri == __CPROVER_return_value);

/* checked public wrappers (left-hand triangle): die on non-conforming operands, otherwise the worker's contract */
#ifndef VP_SOLVE_TRACE
void mzd_trsm_lower_left(mzd_t const *L, mzd_t *B, const int cutoff)
__CPROVER_requires(TRSM_L(L, B) && CUT_OK(cutoff)) __CPROVER_assigns(vg_live, vg_tri) __CPROVER_ensures(vg_live == __CPROVER_old(vg_live));
void mzd_trsm_upper_left(mzd_t const *U, mzd_t *B, const int cutoff)
__CPROVER_requires(TRSM_L(U, B) && CUT_OK(cutoff)) __CPROVER_assigns(vg_live, vg_tri) __CPROVER_ensures(vg_live == __CPROVER_old(vg_live));
#endif
void mzd_trsm_upper_right(mzd_t const *U, mzd_t *B, const int cutoff)
__CPROVER_requires(TRSM_R(U, B) && CUT_OK(cutoff)) __CPROVER_assigns(vg_live, vg_tri) __CPROVER_ensures(vg_live == __CPROVER_old(vg_live));
void mzd_trsm_lower_right(mzd_t const *L, mzd_t *B, const int cutoff)
__CPROVER_requires(TRSM_R(L, B) && CUT_OK(cutoff)) __CPROVER_assigns(vg_live, vg_tri) __CPROVER_ensures(vg_live == __CPROVER_old(vg_live));

#ifdef VP_TRI_GHOST
#define TRI_KNOWN(U) (vg_tri == (U))
#else
#define TRI_KNOWN(U) 1
#endif
mzd_t *mzd_trtri_upper(mzd_t *U)
__CPROVER_requires(SHP(U) && NE(U) && U->nrows == U->ncols && TRI_KNOWN(U))
__CPROVER_assigns(vg_live, vg_tri)
__CPROVER_ensures(__CPROVER_return_value == U && vg_live == __CPROVER_old(vg_live));

mzd_t *mzd_trtri_upper_russian(mzd_t *A, int k)
__CPROVER_requires(SHP(A) && NE(A) && A->nrows == A->ncols && k >= 0)
__CPROVER_assigns()
__CPROVER_ensures(__CPROVER_return_value == A);

#endif
