/* the Gray-code book for k = 1..kmax, built with the real m4ri_build_code (the load-time constructor is not run) */
#ifndef VP_CODEBOOK_H
#define VP_CODEBOOK_H
#include <stdlib.h>
#include <m4ri/graycode.h>
static inline void vp_build_codes(int kmax) {
#ifndef VP_NATIVE
  m4ri_codebook = (code **)calloc(__M4RI_MAXKAY + 1, sizeof(code *));
  for (int k = 1; k <= kmax; ++k) {
    m4ri_codebook[k]      = (code *)calloc(1, sizeof(code));
    m4ri_codebook[k]->ord = (int *)calloc(__M4RI_TWOPOW(k), sizeof(int));
    m4ri_codebook[k]->inc = (int *)calloc(__M4RI_TWOPOW(k), sizeof(int));
    m4ri_build_code(m4ri_codebook[k]->ord, m4ri_codebook[k]->inc, k);
  }
#else
  (void)kmax; /* natively the library's constructor has built all codes */
#endif
}
#endif
