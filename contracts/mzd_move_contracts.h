/* Contracts for addition and data movement (C08): mzd_add/_mzd_add, mzd_copy, mzd_set_ui, mzd_submatrix,
 * mzd_concat, mzd_stack, mzd_extract_u/l, mzd_transpose.
 * Destination supplied: ghost word/bit over the destination's whole block (value + frame in one clause).
 * Destination allocated by the call (NULL): ghost cell (vg_i, vg_j) of the result + header + zero padding.
 * Read-only operands: ghost words (vh_*, vk_*) unchanged. */
#ifndef MZD_MOVE_CONTRACTS_H
#define MZD_MOVE_CONTRACTS_H
#include "mzd_contracts.h"

#define VP_OLDCELL(M, r, c) VP_OLDBIT_AT(M, VP_CLAMP(r, 0, (M)->nrows - 1), VP_CLAMP(c, 0, (M)->ncols - 1))
#define VP_OLDW(M, r, w) VP_W0(M, VP_CLAMP(r, 0, (M)->nrows - 1), VP_CLAMP(w, 0, (M)->width - 1))
#define VP_FRESH_RESULT(R, nr, nc) (VP_HDR(R) && !VP_IS_WINDOW(R) && (R)->nrows == (nr) && (R)->ncols == (nc))
#define VP_SAMEDIM(A, B) ((A)->nrows == (B)->nrows && (A)->ncols == (B)->ncols)
#define VP_GCELL0(A) VP_GCELL(A, 0)
/* ghost pre-conditions: supplied destination -> block ghost readable; NULL destination -> cell ghost inside (nr,nc) */
#define VP_GHOSTS_SANE (vg_i >= 0 && vg_i < (1 << 20) && vg_j >= 0 && vg_j < (1 << 20) && vg_r > -(1 << 20) && vg_r < (1 << 20) && vg_w > -(1 << 20) && vg_w < (1 << 20))
#define VP_DSTGHOST(D, nr, nc)                                                                     \
  (VP_GHOSTS_SANE && ((D) != NULL ? (VP_GHOST_OK(D, vg_r, vg_w) && VP_GBIT_OK) : (vg_i < (nr) && vg_j < (nc))))
#define VP_IS(D, R) ((D) != NULL && (R) == (D))

/* ------------------------------------------------------------------ mzd_add / _mzd_add: C = A + B (entry-wise), aliasing allowed */
#define REQ_mzd_add(C, A, B)                                                                       \
  (VP_HDR(A) && VP_HDR(B) && VP_NONEMPTY(A) && VP_SAMEDIM(A, B) && ((C) == NULL || (VP_HDR(C) && VP_SAMEDIM(C, A))) &&                      \
   VP_DSTGHOST(C, (A)->nrows, (A)->ncols) && VP_GHOST_OK(A, vh_r, vh_w) && VP_GHOST_OK(B, vk_r, vk_w))
#define ENS1_mzd_add(C, A, B, R)                                                                   \
  VP_IMP((C) != NULL, (R) == (C) && VP_IMP(VP_G_IN(C), VP_G(C) == ((VP_G0(C) & ~VP_CELLMASK(C, vg_w)) | ((VP_OLDW(A, vg_r, vg_w) ^ VP_OLDW(B, vg_r, vg_w)) & VP_CELLMASK(C, vg_w)))))
#define ENS2_mzd_add(C, A, B, R) VP_IMP((C) != NULL && !VP_G_IN(C), VP_G(C) == VP_G0(C))
#define ENS3_mzd_add(C, A, B, R)                                                                   \
  VP_IMP((C) == NULL, VP_FRESH_RESULT(R, (A)->nrows, (A)->ncols) && VP_BIT(R, vg_i, vg_j) == (VP_OLDCELL(A, vg_i, vg_j) ^ VP_OLDCELL(B, vg_i, vg_j)) && VP_ROW_CLEAN(R, vg_i))
#define ENS4_mzd_add(C, A, B, R) (VP_IMP((A) != (C), VP_UNCHANGED_H(A)) && VP_IMP((B) != (C), VP_UNCHANGED_K(B)))

/* ------------------------------------------------------------------ mzd_copy: N (>= P in both dimensions) receives P in its top-left corner */
#define REQ_mzd_copy(N, P)                                                                         \
  (VP_HDR(P) && VP_NONEMPTY(P) && ((N) == NULL || (VP_HDR(N) && (N)->nrows >= (P)->nrows && (N)->ncols >= (P)->ncols)) &&                   \
   VP_DSTGHOST(N, (P)->nrows, (P)->ncols) && VP_GHOST_OK(P, vh_r, vh_w))
#define VP_IN_SRC_ROWS(P) (vg_r >= 0 && vg_r < (P)->nrows)
#define ENS1_mzd_copy(N, P, R)                                                                     \
  VP_IMP((N) != NULL && (N) != (P), (R) == (N) && VP_IMP(VP_IN_SRC_ROWS(P), VP_G(N) == ((VP_G0(N) & ~VP_CELLMASK(P, vg_w)) | (VP_OLDW(P, vg_r, vg_w) & VP_CELLMASK(P, vg_w)))))
#define ENS2_mzd_copy(N, P, R) VP_IMP((N) != NULL && !VP_IN_SRC_ROWS(P), VP_G(N) == VP_G0(N))
#define ENS3_mzd_copy(N, P, R)                                                                     \
  VP_IMP((N) == NULL, VP_FRESH_RESULT(R, (P)->nrows, (P)->ncols) && VP_BIT(R, vg_i, vg_j) == VP_OLDCELL(P, vg_i, vg_j) && VP_ROW_CLEAN(R, vg_i))
#define ENS4_mzd_copy(N, P, R) VP_IMP((N) != (P), VP_UNCHANGED_H(P))

/* ------------------------------------------------------------------ mzd_set_ui: zero matrix (even value) / ones on the main diagonal (odd) */
#define REQ_mzd_set_ui(A, value) (VP_HDR(A) && VP_NONEMPTY(A) && VP_GHOST_OK(A, vg_r, vg_w) && VP_GBIT_OK)
#define ENS1_mzd_set_ui(A, value) VP_IMP(VP_GCELL0(A), VP_BITOF(VP_G(A), vg_b) == ((((value) & 1) != 0 && vg_r == VP_GCOL) ? 1 : 0))
#define ENS2_mzd_set_ui(A, value) VP_IMP(!VP_GCELL0(A), VP_BITOF(VP_G(A), vg_b) == VP_BITOF(VP_G0(A), vg_b))

/* ------------------------------------------------------------------ mzd_submatrix: S[i][j] = M[lowr+i][lowc+j]; S exactly (highr-lowr) x (highc-lowc) or NULL */
#define VP_SUB_NR(lowr, highr) ((highr) - (lowr))
#define VP_SUB_NC(lowc, highc) ((highc) - (lowc))
#define REQ_mzd_submatrix(S, M, lowr, lowc, highr, highc)                                          \
  (VP_HDR(M) && VP_NONEMPTY(M) && 0 <= (lowr) && (lowr) < (highr) && (highr) <= (M)->nrows && 0 <= (lowc) && (lowc) < (highc) && (highc) <= (M)->ncols &&        \
   ((S) == NULL || (VP_HDR(S) && (S)->nrows == VP_SUB_NR(lowr, highr) && (S)->ncols == VP_SUB_NC(lowc, highc))) &&                           \
   VP_DSTGHOST(S, VP_SUB_NR(lowr, highr), VP_SUB_NC(lowc, highc)) && VP_GHOST_OK(M, vh_r, vh_w))
#define ENS1_mzd_submatrix(S, M, lowr, lowc, highr, highc, R)                                      \
  VP_IMP((S) != NULL, (R) == (S) && VP_IMP(VP_GCELL0(S), VP_BITOF(VP_G(S), vg_b) == VP_OLDCELL(M, (lowr) + vg_r, (lowc) + VP_GCOL)))
#define ENS2_mzd_submatrix(S, M, lowr, lowc, highr, highc, R) VP_IMP((S) != NULL && !VP_GCELL0(S), VP_BITOF(VP_G(S), vg_b) == VP_BITOF(VP_G0(S), vg_b))
#define ENS3_mzd_submatrix(S, M, lowr, lowc, highr, highc, R)                                      \
  VP_IMP((S) == NULL, VP_FRESH_RESULT(R, VP_SUB_NR(lowr, highr), VP_SUB_NC(lowc, highc)) && VP_BIT(R, vg_i, vg_j) == VP_OLDCELL(M, (lowr) + vg_i, (lowc) + vg_j) && VP_ROW_CLEAN(R, vg_i))
#define ENS4_mzd_submatrix(S, M, lowr, lowc, highr, highc, R) VP_UNCHANGED_H(M)

/* ------------------------------------------------------------------ mzd_concat: C = [A B];  mzd_stack: C = [A ; B] */
#define REQ_mzd_concat(C, A, B)                                                                    \
  (VP_HDR(A) && VP_HDR(B) && VP_NONEMPTY(A) && VP_NONEMPTY(B) && (A)->nrows == (B)->nrows && (A)->ncols <= (1 << 29) && (B)->ncols <= (1 << 29) &&             \
   ((C) == NULL || (VP_HDR(C) && (C)->nrows == (A)->nrows && (C)->ncols == (A)->ncols + (B)->ncols)) && VP_DSTGHOST(C, (A)->nrows, (A)->ncols + (B)->ncols) &&   \
   VP_GHOST_OK(A, vh_r, vh_w) && VP_GHOST_OK(B, vk_r, vk_w))
#define VP_CONCAT_SRC(A, B, i, j) ((j) < (A)->ncols ? VP_OLDCELL(A, i, j) : VP_OLDCELL(B, i, (j) - (A)->ncols))
#define ENS1_mzd_concat(C, A, B, R) VP_IMP((C) != NULL, (R) == (C) && VP_IMP(VP_GCELL0(C), VP_BITOF(VP_G(C), vg_b) == VP_CONCAT_SRC(A, B, vg_r, VP_GCOL)))
#define ENS2_mzd_concat(C, A, B, R) VP_IMP((C) != NULL && !VP_GCELL0(C), VP_BITOF(VP_G(C), vg_b) == VP_BITOF(VP_G0(C), vg_b))
#define ENS3_mzd_concat(C, A, B, R)                                                                \
  VP_IMP((C) == NULL, VP_FRESH_RESULT(R, (A)->nrows, (A)->ncols + (B)->ncols) && VP_BIT(R, vg_i, vg_j) == VP_CONCAT_SRC(A, B, vg_i, vg_j) && VP_ROW_CLEAN(R, vg_i))
#define ENS4_mzd_concat(C, A, B, R) (VP_UNCHANGED_H(A) && VP_UNCHANGED_K(B))

#define REQ_mzd_stack(C, A, B)                                                                     \
  (VP_HDR(A) && VP_HDR(B) && VP_NONEMPTY(A) && VP_NONEMPTY(B) && (A)->ncols == (B)->ncols && (A)->nrows <= (1 << 29) && (B)->nrows <= (1 << 29) &&             \
   ((C) == NULL || (VP_HDR(C) && (C)->ncols == (A)->ncols && (C)->nrows == (A)->nrows + (B)->nrows)) && VP_DSTGHOST(C, (A)->nrows + (B)->nrows, (A)->ncols) &&   \
   VP_GHOST_OK(A, vh_r, vh_w) && VP_GHOST_OK(B, vk_r, vk_w))
#define VP_STACK_SRC(A, B, i, j) ((i) < (A)->nrows ? VP_OLDCELL(A, i, j) : VP_OLDCELL(B, (i) - (A)->nrows, j))
#define ENS1_mzd_stack(C, A, B, R) VP_IMP((C) != NULL, (R) == (C) && VP_IMP(VP_GCELL0(C), VP_BITOF(VP_G(C), vg_b) == VP_STACK_SRC(A, B, vg_r, VP_GCOL)))
#define ENS2_mzd_stack(C, A, B, R) VP_IMP((C) != NULL && !VP_GCELL0(C), VP_BITOF(VP_G(C), vg_b) == VP_BITOF(VP_G0(C), vg_b))
#define ENS3_mzd_stack(C, A, B, R)                                                                 \
  VP_IMP((C) == NULL, VP_FRESH_RESULT(R, (A)->nrows + (B)->nrows, (A)->ncols) && VP_BIT(R, vg_i, vg_j) == VP_STACK_SRC(A, B, vg_i, vg_j) && VP_ROW_CLEAN(R, vg_i))
#define ENS4_mzd_stack(C, A, B, R) (VP_UNCHANGED_H(A) && VP_UNCHANGED_K(B))

/* ------------------------------------------------------------------ mzd_extract_u / mzd_extract_l: k = min(rows, cols); U k x k upper / L lower triangle of A */
#define VP_MINDIM(A) ((A)->nrows < (A)->ncols ? (A)->nrows : (A)->ncols)
#define REQ_mzd_extract(U, A)                                                                      \
  (VP_HDR(A) && VP_NONEMPTY(A) && ((U) == NULL || (VP_HDR(U) && (U)->nrows == VP_MINDIM(A) && (U)->ncols == VP_MINDIM(A))) &&               \
   VP_DSTGHOST(U, VP_MINDIM(A), VP_MINDIM(A)) && VP_GHOST_OK(A, vh_r, vh_w))
#define VP_TRI_U(A, i, j) ((j) >= (i) ? VP_OLDCELL(A, i, j) : 0)
#define VP_TRI_L(A, i, j) ((j) <= (i) ? VP_OLDCELL(A, i, j) : 0)
#define ENS1_mzd_extract(U, A, R, TRI) VP_IMP((U) != NULL, (R) == (U) && VP_IMP(VP_GCELL0(U), VP_BITOF(VP_G(U), vg_b) == TRI(A, vg_r, VP_GCOL)))
#define ENS2_mzd_extract(U, A, R) VP_IMP((U) != NULL && !VP_GCELL0(U), VP_BITOF(VP_G(U), vg_b) == VP_BITOF(VP_G0(U), vg_b))
#define ENS3_mzd_extract(U, A, R, TRI)                                                             \
  VP_IMP((U) == NULL, VP_FRESH_RESULT(R, VP_MINDIM(A), VP_MINDIM(A)) && VP_BIT(R, vg_i, vg_j) == TRI(A, vg_i, vg_j) && VP_ROW_CLEAN(R, vg_i))
#define ENS4_mzd_extract(U, A, R) VP_UNCHANGED_H(A)

/* ------------------------------------------------------------------ mzd_transpose: DST[j][i] = A[i][j] */
#define REQ_mzd_transpose(DST, A)                                                                  \
  (VP_HDR(A) && VP_NONEMPTY(A) && ((DST) == NULL || (VP_HDR(DST) && (DST)->nrows == (A)->ncols && (DST)->ncols == (A)->nrows)) &&           \
   VP_DSTGHOST(DST, (A)->ncols, (A)->nrows) && VP_GHOST_OK(A, vh_r, vh_w))
#define ENS1_mzd_transpose(DST, A, R) VP_IMP((DST) != NULL, (R) == (DST) && VP_IMP(VP_GCELL0(DST), VP_BITOF(VP_G(DST), vg_b) == VP_OLDCELL(A, VP_GCOL, vg_r)))
#define ENS2_mzd_transpose(DST, A, R) VP_IMP((DST) != NULL && !VP_GCELL0(DST), VP_BITOF(VP_G(DST), vg_b) == VP_BITOF(VP_G0(DST), vg_b))
#define ENS3_mzd_transpose(DST, A, R)                                                              \
  VP_IMP((DST) == NULL, VP_FRESH_RESULT(R, (A)->ncols, (A)->nrows) && VP_BIT(R, vg_i, vg_j) == VP_OLDCELL(A, vg_j, vg_i) && VP_ROW_CLEAN(R, vg_i))
#define ENS4_mzd_transpose(DST, A, R) VP_UNCHANGED_H(A)

#ifndef VP_NATIVE
#define VP_RET __CPROVER_return_value
mzd_t *mzd_add(mzd_t *C, mzd_t const *A, mzd_t const *B)
__CPROVER_requires(REQ_mzd_add(C, A, B))
__CPROVER_assigns(C != NULL: __CPROVER_object_whole(C->data))
__CPROVER_ensures(ENS1_mzd_add(C, A, B, VP_RET)) __CPROVER_ensures(ENS2_mzd_add(C, A, B, VP_RET))
__CPROVER_ensures(ENS3_mzd_add(C, A, B, VP_RET)) __CPROVER_ensures(ENS4_mzd_add(C, A, B, VP_RET));

mzd_t *_mzd_add(mzd_t *C, mzd_t const *A, mzd_t const *B)
__CPROVER_requires(C != NULL && REQ_mzd_add(C, A, B))
__CPROVER_assigns(__CPROVER_object_whole(C->data))
__CPROVER_ensures(ENS1_mzd_add(C, A, B, VP_RET)) __CPROVER_ensures(ENS2_mzd_add(C, A, B, VP_RET)) __CPROVER_ensures(ENS4_mzd_add(C, A, B, VP_RET));

mzd_t *mzd_copy(mzd_t *N, mzd_t const *P)
__CPROVER_requires(REQ_mzd_copy(N, P))
__CPROVER_assigns(N != NULL: __CPROVER_object_whole(N->data))
__CPROVER_ensures(ENS1_mzd_copy(N, P, VP_RET)) __CPROVER_ensures(ENS2_mzd_copy(N, P, VP_RET))
__CPROVER_ensures(ENS3_mzd_copy(N, P, VP_RET)) __CPROVER_ensures(ENS4_mzd_copy(N, P, VP_RET));

void mzd_set_ui(mzd_t *A, unsigned int value)
__CPROVER_requires(REQ_mzd_set_ui(A, value))
__CPROVER_assigns(__CPROVER_object_whole(A->data))
__CPROVER_ensures(ENS1_mzd_set_ui(A, value)) __CPROVER_ensures(ENS2_mzd_set_ui(A, value));

mzd_t *mzd_submatrix(mzd_t *S, mzd_t const *M, rci_t const lowr, rci_t const lowc, rci_t const highr, rci_t const highc)
__CPROVER_requires(REQ_mzd_submatrix(S, M, lowr, lowc, highr, highc))
__CPROVER_assigns(S != NULL: __CPROVER_object_whole(S->data))
__CPROVER_ensures(ENS1_mzd_submatrix(S, M, lowr, lowc, highr, highc, VP_RET)) __CPROVER_ensures(ENS2_mzd_submatrix(S, M, lowr, lowc, highr, highc, VP_RET))
__CPROVER_ensures(ENS3_mzd_submatrix(S, M, lowr, lowc, highr, highc, VP_RET)) __CPROVER_ensures(ENS4_mzd_submatrix(S, M, lowr, lowc, highr, highc, VP_RET));

mzd_t *mzd_concat(mzd_t *C, mzd_t const *A, mzd_t const *B)
__CPROVER_requires(REQ_mzd_concat(C, A, B))
__CPROVER_assigns(C != NULL: __CPROVER_object_whole(C->data))
__CPROVER_ensures(ENS1_mzd_concat(C, A, B, VP_RET)) __CPROVER_ensures(ENS2_mzd_concat(C, A, B, VP_RET))
__CPROVER_ensures(ENS3_mzd_concat(C, A, B, VP_RET)) __CPROVER_ensures(ENS4_mzd_concat(C, A, B, VP_RET));

mzd_t *mzd_stack(mzd_t *C, mzd_t const *A, mzd_t const *B)
__CPROVER_requires(REQ_mzd_stack(C, A, B))
__CPROVER_assigns(C != NULL: __CPROVER_object_whole(C->data))
__CPROVER_ensures(ENS1_mzd_stack(C, A, B, VP_RET)) __CPROVER_ensures(ENS2_mzd_stack(C, A, B, VP_RET))
__CPROVER_ensures(ENS3_mzd_stack(C, A, B, VP_RET)) __CPROVER_ensures(ENS4_mzd_stack(C, A, B, VP_RET));

mzd_t *mzd_extract_u(mzd_t *U, mzd_t const *A)
__CPROVER_requires(REQ_mzd_extract(U, A))
__CPROVER_assigns(U != NULL: __CPROVER_object_whole(U->data))
__CPROVER_ensures(ENS1_mzd_extract(U, A, VP_RET, VP_TRI_U)) __CPROVER_ensures(ENS2_mzd_extract(U, A, VP_RET))
__CPROVER_ensures(ENS3_mzd_extract(U, A, VP_RET, VP_TRI_U)) __CPROVER_ensures(ENS4_mzd_extract(U, A, VP_RET));

mzd_t *mzd_extract_l(mzd_t *L, mzd_t const *A)
__CPROVER_requires(REQ_mzd_extract(L, A))
__CPROVER_assigns(L != NULL: __CPROVER_object_whole(L->data))
__CPROVER_ensures(ENS1_mzd_extract(L, A, VP_RET, VP_TRI_L)) __CPROVER_ensures(ENS2_mzd_extract(L, A, VP_RET))
__CPROVER_ensures(ENS3_mzd_extract(L, A, VP_RET, VP_TRI_L)) __CPROVER_ensures(ENS4_mzd_extract(L, A, VP_RET));

mzd_t *mzd_transpose(mzd_t *DST, mzd_t const *A)
__CPROVER_requires(REQ_mzd_transpose(DST, A))
__CPROVER_assigns(DST != NULL: __CPROVER_object_whole(DST->data))
__CPROVER_ensures(ENS1_mzd_transpose(DST, A, VP_RET)) __CPROVER_ensures(ENS2_mzd_transpose(DST, A, VP_RET))
__CPROVER_ensures(ENS3_mzd_transpose(DST, A, VP_RET)) __CPROVER_ensures(ENS4_mzd_transpose(DST, A, VP_RET));
#endif
#endif
