/* Layer S: shape / window-containment / header-balance contracts.  Matrix *data* is opaque in this layer
 * (never dereferenced): the contracts speak about dimensions, window flags and the number of live headers
 * (ghost vg_live).  Dimensions, offsets and cutoffs are fully symbolic 32-bit values -- no bound except the
 * stated domain nrows, ncols <= 2^29 (VP-ASSUMPTION: 3*a / 4*cutoff do not overflow int inside that domain). */
#ifndef SHAPE_CONTRACTS_H
#define SHAPE_CONTRACTS_H

extern int vg_live; /* ghost: number of live mzd_t headers created by the code under proof */

#define VP_DIMMAX (1 << 29)
#define SHP(M) (__CPROVER_r_ok((M), sizeof(mzd_t)) && (M)->nrows >= 0 && (M)->ncols >= 0 && (M)->nrows <= VP_DIMMAX && (M)->ncols <= VP_DIMMAX)
#define NE(M) ((M)->nrows >= 1 && (M)->ncols >= 1)
#define FRESH_HDR(R) (__CPROVER_is_fresh((R), sizeof(mzd_t)))
#define WINDOWED(M) (((M)->flags & 0x4) != 0)
#define CONFORM(C, A, B) ((A)->ncols == (B)->nrows && (C)->nrows == (A)->nrows && (C)->ncols == (B)->ncols)

mzd_t *mzd_init(rci_t r, rci_t c)
__CPROVER_requires(r >= 0 && c >= 0 && r <= VP_DIMMAX && c <= VP_DIMMAX)
__CPROVER_assigns(vg_live)
__CPROVER_ensures(FRESH_HDR(__CPROVER_return_value) && __CPROVER_return_value->nrows == r && __CPROVER_return_value->ncols == c && !WINDOWED(__CPROVER_return_value))
__CPROVER_ensures(vg_live == __CPROVER_old(vg_live) + 1);

/* a window lies inside its parent and starts on a word boundary */
mzd_t *mzd_init_window(mzd_t *M, rci_t lowr, rci_t lowc, rci_t highr, rci_t highc)
__CPROVER_requires(SHP(M) && 0 <= lowr && lowr <= highr && highr <= M->nrows && 0 <= lowc && lowc <= highc && highc <= M->ncols && lowc % 64 == 0)
__CPROVER_assigns(vg_live)
__CPROVER_ensures(FRESH_HDR(__CPROVER_return_value) && __CPROVER_return_value->nrows == highr - lowr && __CPROVER_return_value->ncols == highc - lowc && WINDOWED(__CPROVER_return_value))
__CPROVER_ensures(vg_live == __CPROVER_old(vg_live) + 1);

void mzd_free(mzd_t *A)
__CPROVER_requires(SHP(A))
__CPROVER_assigns(vg_live)
__CPROVER_ensures(vg_live == __CPROVER_old(vg_live) - 1);

mzd_t *mzd_copy(mzd_t *N, mzd_t const *P)
__CPROVER_requires(SHP(P) && (N == NULL || (SHP(N) && N->nrows >= P->nrows && N->ncols >= P->ncols)))
__CPROVER_assigns(vg_live)
__CPROVER_ensures(N != NULL ==> (__CPROVER_return_value == N && vg_live == __CPROVER_old(vg_live)))
__CPROVER_ensures(N == NULL ==> (FRESH_HDR(__CPROVER_return_value) && __CPROVER_return_value->nrows == P->nrows && __CPROVER_return_value->ncols == P->ncols && !WINDOWED(__CPROVER_return_value) && vg_live == __CPROVER_old(vg_live) + 1));

mzd_t *_mzd_add(mzd_t *C, mzd_t const *A, mzd_t const *B)
__CPROVER_requires(SHP(C) && SHP(A) && SHP(B) && A->ncols == B->ncols && C->ncols == A->ncols && A->nrows == B->nrows && C->nrows == A->nrows)
__CPROVER_assigns()
__CPROVER_ensures(__CPROVER_return_value == C);

/* the Four-Russians kernels need non-empty, conforming operands (with an empty factor the cubic fall-back
 * transposes a k x 0 matrix into a 0 x k destination and dies in mzd_copy) */
mzd_t *_mzd_mul_m4rm(mzd_t *C, mzd_t const *A, mzd_t const *B, int k, int clear)
__CPROVER_requires(SHP(C) && SHP(A) && SHP(B) && NE(A) && NE(B) && NE(C) && CONFORM(C, A, B) && k >= 0)
__CPROVER_assigns()
__CPROVER_ensures(__CPROVER_return_value == C);

mzd_t *mzd_addmul_m4rm(mzd_t *C, mzd_t const *A, mzd_t const *B, int k)
__CPROVER_requires(SHP(C) && SHP(A) && SHP(B) && NE(A) && NE(B) && NE(C) && CONFORM(C, A, B) && k >= 0)
__CPROVER_assigns()
__CPROVER_ensures(__CPROVER_return_value == C);

#define STRASSEN_CUTOFF_OK(cutoff) ((cutoff) >= 64 && (cutoff) <= (1 << 28))
mzd_t *_mzd_mul_even(mzd_t *C, mzd_t const *A, mzd_t const *B, int cutoff)
__CPROVER_requires(SHP(C) && SHP(A) && SHP(B) && NE(A) && NE(B) && NE(C) && CONFORM(C, A, B) && STRASSEN_CUTOFF_OK(cutoff))
__CPROVER_assigns(vg_live)
__CPROVER_ensures(__CPROVER_return_value == C && vg_live == __CPROVER_old(vg_live));

mzd_t *_mzd_addmul_even(mzd_t *C, mzd_t const *A, mzd_t const *B, int cutoff)
__CPROVER_requires(SHP(C) && SHP(A) && SHP(B) && NE(A) && NE(B) && NE(C) && CONFORM(C, A, B) && STRASSEN_CUTOFF_OK(cutoff))
__CPROVER_assigns(vg_live)
__CPROVER_ensures(__CPROVER_return_value == C && vg_live == __CPROVER_old(vg_live));

mzd_t *_mzd_sqr_even(mzd_t *C, mzd_t const *A, int cutoff)
__CPROVER_requires(SHP(C) && SHP(A) && NE(A) && A->nrows == A->ncols && C->nrows == A->nrows && C->ncols == A->ncols && STRASSEN_CUTOFF_OK(cutoff))
__CPROVER_assigns(vg_live)
__CPROVER_ensures(__CPROVER_return_value == C && vg_live == __CPROVER_old(vg_live));

mzd_t *_mzd_addsqr_even(mzd_t *C, mzd_t const *A, int cutoff)
__CPROVER_requires(SHP(C) && SHP(A) && NE(A) && A->nrows == A->ncols && C->nrows == A->nrows && C->ncols == A->ncols && STRASSEN_CUTOFF_OK(cutoff))
__CPROVER_assigns(vg_live)
__CPROVER_ensures(__CPROVER_return_value == C && vg_live == __CPROVER_old(vg_live));

/* public front ends: positive conforming dimensions, any cutoff >= 0; result header as documented */
mzd_t *mzd_mul(mzd_t *C, mzd_t const *A, mzd_t const *B, int cutoff)
__CPROVER_requires(SHP(A) && SHP(B) && NE(A) && NE(B) && A->ncols == B->nrows && cutoff >= 0 && cutoff <= (1 << 28))
__CPROVER_requires(C == NULL || (SHP(C) && C->nrows == A->nrows && C->ncols == B->ncols))
__CPROVER_assigns(vg_live)
__CPROVER_ensures(C != NULL ==> (__CPROVER_return_value == C && vg_live == __CPROVER_old(vg_live)))
__CPROVER_ensures(C == NULL ==> (FRESH_HDR(__CPROVER_return_value) && __CPROVER_return_value->nrows == A->nrows && __CPROVER_return_value->ncols == B->ncols && !WINDOWED(__CPROVER_return_value) && vg_live == __CPROVER_old(vg_live) + 1));

/* (empty operands are allowed: the front end returns before any kernel is called -- used by the PLUQ solve with rank 0 / full rank) */
mzd_t *mzd_addmul(mzd_t *C, mzd_t const *A, mzd_t const *B, int cutoff)
__CPROVER_requires(SHP(A) && SHP(B) && A->ncols == B->nrows && cutoff >= 0 && cutoff <= (1 << 28))
__CPROVER_requires(C == NULL || (SHP(C) && C->nrows == A->nrows && C->ncols == B->ncols))
__CPROVER_assigns(vg_live)
__CPROVER_ensures(C != NULL ==> (__CPROVER_return_value == C && vg_live == __CPROVER_old(vg_live)))
__CPROVER_ensures(C == NULL ==> (FRESH_HDR(__CPROVER_return_value) && __CPROVER_return_value->nrows == A->nrows && __CPROVER_return_value->ncols == B->ncols && !WINDOWED(__CPROVER_return_value) && vg_live == __CPROVER_old(vg_live) + 1));

#endif
