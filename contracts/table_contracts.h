/* mzd_make_table (brilliantrussian.c): the Gray-code lookup table behind M4RM / M4RI.
 * For every k-bit pattern x:  T[L[x]] = sum of the rows M[r+b] with bit b of x set, restricted to the columns >= c
 * (word-level: first word masked from bit c%64 on, last word masked to the cells of M).  L is a bijection onto
 * [0, 2^k) with L[0] == 0.  Row 0 of T is REQUIRED to be zero on entry (the routine never writes it): every call
 * site must establish that -- this is where "the table relies on zeroed memory" becomes an obligation. */
#ifndef TABLE_CONTRACTS_H
#define TABLE_CONTRACTS_H
#include "mzd_contracts.h"

extern int vg_x, vg_y; /* ghost patterns */

static inline vp_word vp_subset_sum0(mzd_t const *M, int r, int k, int x, int w) {
  vp_word s = 0;
  for (int b = 0; b < k; ++b)
    if ((x >> b) & 1) s ^= VP_W0(M, r + b, w);
  return s;
}
static inline int vp_row0_zero(mzd_t const *T, int from_w, int to_w) {
  int z = 1;
  for (int w = from_w; w < to_w; ++w) z = z && VP_W(T, 0, w) == 0;
  return z;
}
#define VP_TBL_MASK(M, c, w) (VP_FROMCOL(c, w) & VP_CELLMASK(M, w))
#define REQ_mzd_make_table(M, r, c, k, T, L)                                                       \
  (VP_HDR(M) && VP_HDR(T) && VP_NONEMPTY(M) && (k) >= 1 && (k) <= 8 && (r) >= 0 && (r) <= (M)->nrows - (k) && (c) >= 0 && (c) < (M)->ncols &&            \
   (T)->nrows >= (1 << (k)) && (T)->ncols == (M)->ncols && vp_row0_zero(T, (c) / 64, (M)->width) && vg_x >= 0 && vg_x < (1 << (k)) && vg_y >= 0 &&        \
   vg_y < (1 << (k)) && vg_w >= 0 && vg_w < (M)->width && VP_GHOST_OK(M, vh_r, vh_w))
#define ENS1_mzd_make_table(M, r, c, k, T, L) ((L)[vg_x] >= 0 && (L)[vg_x] < (1 << (k)) && (L)[0] == 0 && VP_IMP(vg_x != vg_y, (L)[vg_x] != (L)[vg_y]))
#define ENS2_mzd_make_table(M, r, c, k, T, L)                                                      \
  VP_IMP(vg_w >= (c) / 64, VP_W(T, VP_CLAMP((L)[vg_x], 0, (1 << (k)) - 1), vg_w) == (vp_subset_sum0(M, r, k, vg_x, vg_w) & VP_TBL_MASK(M, c, vg_w)))
#define ENS3_mzd_make_table(M, r, c, k, T, L) VP_IMP(vg_w < (c) / 64, VP_W(T, vg_y, vg_w) == VP_W0(T, vg_y, vg_w))
#define ENS4_mzd_make_table(M, r, c, k, T, L) VP_UNCHANGED_H(M)
#endif
