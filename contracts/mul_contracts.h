/* C01: every multiplication route yields C = A*B, the accumulate variants C0 + A*B; factors unchanged.
 * Spec: ghost cell (vg_i, vg_j); the GF(2) dot product is a spec loop over the inner dimension. */
#ifndef MUL_CONTRACTS_H
#define MUL_CONTRACTS_H
#include "mzd_move_contracts.h"

/* sum_k A[i][k] & B[k][j] over the values the operands had before the call */
static inline int vp_dot_old(mzd_t const *A, mzd_t const *B, int i, int j) {
  int s = 0;
  for (int k = 0; k < A->ncols; ++k) s ^= VP_OLDBIT_AT(A, i, k) & VP_OLDBIT_AT(B, k, j);
  return s;
}
#define REQ_mul(C, A, B)                                                                           \
  (VP_HDR(A) && VP_HDR(B) && VP_NONEMPTY(A) && VP_NONEMPTY(B) && (A)->ncols == (B)->nrows && ((C) == NULL || (VP_HDR(C) && (C)->nrows == (A)->nrows && (C)->ncols == (B)->ncols)) &&  \
   vg_i >= 0 && vg_i < (A)->nrows && vg_j >= 0 && vg_j < (B)->ncols && VP_GHOST_OK(A, vh_r, vh_w) && VP_GHOST_OK(B, vk_r, vk_w))
/* product: R (the supplied C or the fresh result) holds A*B, plus the old C when acc */
#define ENS1_mul(C, A, B, R, acc)                                                                  \
  ((R) != NULL && ((C) == NULL || (R) == (C)) && (R)->nrows == (A)->nrows && (R)->ncols == (B)->ncols &&                                    \
   VP_BIT(R, vg_i, vg_j) == (((acc) ? VP_OLDBIT_AT(C, vg_i, vg_j) : 0) ^ vp_dot_old(A, B, vg_i, vg_j)))
#define ENS2_mul(C, A, B, R) (VP_UNCHANGED_H(A) && VP_UNCHANGED_K(B))
#define ENS3_mul(C, A, B, R) VP_IMP((C) == NULL, VP_FRESH_RESULT(R, (A)->nrows, (B)->ncols) && VP_ROW_CLEAN(R, vg_i))
/* frame on a supplied destination: ghost word (vg_r, vg_w) of C's block outside C's cells unchanged */
#define ENS4_mul(C, A, B, R) VP_IMP((C) != NULL, (VP_G(C) & ~(VP_G_IN(C) ? VP_CELLMASK(C, vg_w) : (vp_word)0)) == (VP_G0(C) & ~(VP_G_IN(C) ? VP_CELLMASK(C, vg_w) : (vp_word)0)))
#endif
