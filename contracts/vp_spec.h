/* vp_spec.h -- spec-side vocabulary for mzd_t.  Reads the representation directly; never
 * calls library accessors.  Include after <m4ri/mzd.h> (or after the .c file under proof). */
#ifndef VP_SPEC_H
#define VP_SPEC_H
#include "vp.h"

typedef unsigned long long vp_word;
#define VP_ONES (~(vp_word)0)
/* bits >= n set (0 <= n < 64) */
#define VP_GEMASK(n) (VP_ONES << (n))

#define VP_FLAG_EXCESS 0x2
#define VP_FLAG_WINDOWED 0x4

/* word w of row r of M, current value / value before the call */
#define VP_W(M, r, w) ((M)->data[(wi_t)(r) * (M)->rowstride + (wi_t)(w)])
#if defined(VP_NO_SHADOW)
#define VP_W0(M, r, w) VP_W(M, r, w)
#elif defined(VP_ASSERT_MODE) && !defined(VP_NATIVE)
#define VP_W0(M, r, w) (vp_old_data(M)[(wi_t)(r) * (M)->rowstride + (wi_t)(w)])
#else
#define VP_W0(M, r, w) VP_OLD(VP_W(M, r, w))
#endif
/* cell (i,j) */
#define VP_BIT(M, i, j) ((int)((VP_W(M, i, (j) / 64) >> ((j) % 64)) & 1))
#define VP_BIT0(M, i, j) ((int)((VP_W0(M, i, (j) / 64) >> ((j) % 64)) & 1))

/* which bits of word w of a row are cells of M */
#define VP_CELLMASK(M, w)                                                                          \
  ((w) < 0 || (w) >= (M)->width ? (vp_word)0                                                       \
                                : ((w) == (M)->width - 1 ? VP_LMASK((M)->ncols % 64) : VP_ONES))
/* cells with column >= c0 in word w */
#define VP_FROMCOL(c0, w) ((w) < (c0) / 64 ? (vp_word)0 : ((w) == (c0) / 64 ? VP_GEMASK((c0) % 64) : VP_ONES))

/* header relations every mzd_t satisfies */
#define VP_HDR(M)                                                                                  \
  ((M)->nrows >= 0 && (M)->ncols >= 0 && (M)->width == ((M)->ncols + 63) / 64 &&                   \
   (M)->rowstride >= (M)->width && (M)->high_bitmask == VP_LMASK((M)->ncols % 64) &&               \
   (((M)->flags & VP_FLAG_EXCESS) != 0) == ((M)->ncols % 64 != 0))
#define VP_IS_WINDOW(M) (((M)->flags & VP_FLAG_WINDOWED) != 0)
/* row r of an owned matrix has zero excess bits */
#define VP_ROW_CLEAN(M, r) ((M)->ncols % 64 == 0 || (VP_W(M, r, (M)->width - 1) & ~VP_LMASK((M)->ncols % 64)) == 0)
/* ghost word (gr, gw) -- relative to M->data, may lie outside the view but inside its block -- is readable */
#define VP_GHOST_OK(M, gr, gw) VP_R_OK(&VP_W(M, gr, gw), 8)
/* is ghost word (gr,gw) inside the view's rows/words? */
#define VP_IN_VIEW(M, gr, gw) ((gr) >= 0 && (gr) < (M)->nrows && (gw) >= 0 && (gw) < (M)->width)

#if defined(VP_ASSERT_MODE) && !defined(VP_NATIVE)
/* shadow copy of the block M lives in, at M->data's offset */
static inline word const *vp_old_data(mzd_t const *M) {
  for (int k = 0; k < vp_reg_cnt; ++k)
    if (vp_reg_hdr[k] == (void *)M) return (word const *)(vp_reg_old[k] + (M->data - (word *)vp_reg_blk[k]));
  __CPROVER_assert(0, "VP_W0 of an unregistered matrix");
  return M->data;
}
#endif

/* ---- harness side: build a matrix header over an input block -------------------------------
 * The block has 2 guard words in front (see DESIGN.md 1: the code forms `eof - 1`), then
 * PR rows of PRS words.  The matrix is the window [R0, R0+NR) x words [W0, ...) of that block.
 * All block words are inputs (symbolic); for owned matrices the excess bits are cleared
 * (representation invariant VP_OWNED), everything else stays arbitrary. */
#define VP_GUARD 2
#define VP_MAT_DECL(M, PR, PRS)                                                                    \
  VP_IN_ARR(word, in_##M##_blk, VP_GUARD + (PR) * (PRS));                                          \
  mzd_t M##_hdr;                                                                                   \
  mzd_t *M = &M##_hdr

static inline void vp_mat_setup(mzd_t *M, word *blk, int pr, int prs, int nr, int nc, int r0, int w0, int windowed) {
  M->nrows        = nr;
  M->ncols        = nc;
  M->width        = (nc + 63) / 64;
  M->rowstride    = prs;
  M->high_bitmask = VP_LMASK(nc % 64);
  M->flags        = (uint8_t)((windowed ? VP_FLAG_WINDOWED : 0) | ((nc % 64) ? VP_FLAG_EXCESS : 0));
  M->data         = blk + VP_GUARD + (wi_t)r0 * prs + w0;
  if (!windowed && (nc % 64)) {
    for (int r = 0; r < nr; ++r) M->data[(wi_t)r * prs + M->width - 1] &= VP_LMASK(nc % 64);
  }
  VP_REGISTER(M, blk, sizeof(word) * (VP_GUARD + (size_t)pr * prs));
}
#define VP_MAT_SETUP(M, PR, PRS, NR, NC, R0, W0, WINDOWED) vp_mat_setup(M, in_##M##_blk, PR, PRS, NR, NC, R0, W0, WINDOWED)

#endif
