"""Turn group results into: evidence/<id>.json, VIOLATION / KNOWN-FINDING lines, replay files, exit code."""
import fnmatch
import json
import os
import re
import shutil
import time

from . import core
from .core import VERIF, Group, GroupResult

FINDINGS = os.path.join(VERIF, "known_findings.txt")

LEVELS = {}  # property id -> level category, filled by checks registry


def load_findings():
    """lines: finding: property=<id> group=<glob> obligation=<glob> <text>   |   fixed: property=<id> <commit> <text>"""
    res = []
    if not os.path.isfile(FINDINGS):
        return res
    for ln in open(FINDINGS):
        ln = ln.strip()
        if not ln.startswith("finding:"):
            continue
        kv = dict(re.findall(r"(\w+)=(\S+)", ln))
        res.append({"property": kv.get("property", ""), "group": kv.get("group", "*"), "obligation": kv.get("obligation", "*"), "text": ln})
    return res


def finding_for(findings, prop, gid, pid):
    for f in findings:
        if f["property"] == prop and fnmatch.fnmatchcase(gid, f["group"]) and fnmatch.fnmatchcase(pid, f["obligation"]):
            return f
    return None


CONTRACT_PID = re.compile(r"\.(postcondition|precondition|assigns|loop_invariant_base|loop_invariant_step|loop_assigns|loop_decreases|loop_step_unwinding|assertion|single_top_level_call|no_recursive_call)\.")


def write_replay_inputs(path, inputs):
    with open(path, "w") as f:
        for name, v in sorted(inputs.items()):
            if isinstance(v, list):
                for i, x in enumerate(v):
                    f.write("%s %d %x\n" % (name, i, x & 0xFFFFFFFFFFFFFFFF))
            else:
                f.write("%s 0 %x\n" % (name, v & 0xFFFFFFFFFFFFFFFF))


def native_replay(snap, g: Group, inputs, workdir):
    """build the harness natively against the same snapshot (gcc, ASan+UBSan) and run it on the inputs"""
    os.makedirs(workdir, exist_ok=True)
    d = snap.cfg_dir(g.config)
    defs = ["-D%s=%s" % (k, v) if v is not None else "-D%s" % k for k, v in g.defines.items()]
    exe = os.path.join(workdir, "replay.bin")
    base = ["gcc", "-std=gnu11", "-w", "-g", "-O1", "-fsanitize=address,undefined", "-fno-sanitize-recover=undefined", "-fno-omit-frame-pointer",
            "-DVP_NATIVE", "-DHAVE_CONFIG_H", "-msse2",
            "-D__CPROVER_assigns(...)=", "-D__CPROVER_loop_invariant(...)=", "-D__CPROVER_decreases(...)=", "-D__CPROVER_assert(...)=((void)0)",
            "-I" + d, "-I" + os.path.join(d, "m4ri"), "-I" + os.path.join(VERIF, "contracts"), "-I" + os.path.join(VERIF, "harness"),
            "-I" + os.path.join(VERIF, "stubs")]
    # library translation units are compiled WITHOUT the harness's shape macros (they are the real code), each with its own extra flags
    objs = []
    raw_tus = g.native_tus if g.native_tus is not None else g.tus
    for t in raw_tus:
        name = t.split("|")[0]
        if name == "@libm":
            continue
        src = name if name.startswith("/") else os.path.join(d, "m4ri", name + ".c")
        obj = os.path.join(workdir, os.path.basename(src)[:-2] + ".o")
        rc, so, se, dt, to = core._run(base + t.split("|")[1:] + ["-c", src, "-o", obj], timeout=300)
        if rc != 0:
            return {"outcome": "build-failed", "output": (se or so)[-3000:], "cmd": "gcc -c " + src}
        objs.append(obj)
    cmd = base + defs + g.extra_cflags + [os.path.join(VERIF, "harness", g.harness)] + objs + [os.path.join(VERIF, "lib", "native_rt.c"), "-o", exe, "-lm", "-lpng"]
    rc, so, se, dt, to = core._run(cmd, timeout=300)
    if rc != 0:
        return {"outcome": "build-failed", "output": (se or so)[-3000:], "cmd": " ".join(cmd)}
    inp = os.path.join(workdir, "inputs.txt")
    write_replay_inputs(inp, inputs)
    env = dict(os.environ, VP_REPLAY_FILE=inp, ASAN_OPTIONS="detect_leaks=0:abort_on_error=0", UBSAN_OPTIONS="print_stacktrace=1")
    rc, so, se, dt, to = core._run([exe], timeout=120, env=env)
    out = (so + "\n" + se)[-4000:]
    if to:
        oc = "timeout"
    elif rc == 0:
        oc = "not-reproduced"
    elif rc == 43:
        oc = "inputs-rejected"
    elif rc == 44:
        oc = "replay-error"
    else:
        oc = "reproduced"
        # a sanitizer report whose innermost frame is in the harness / contract text is a problem of the spec evaluation, not of the library
        m = re.search(r"#0 0x[0-9a-f]+ in \S+ (\S+)", out)
        if m and m.group(1).startswith(VERIF) and ("runtime error" in out or "AddressSanitizer" in out):
            oc = "spec-evaluation-error"
    return {"outcome": oc, "exit": rc, "output": out, "cmd": " ".join(cmd)}


def make_replay(runner, snap, prop, r: GroupResult, p):
    """build a replay file for one refuted obligation; returns (path, has_input)"""
    g = r.group
    rdir = os.path.join(VERIF, "replay", prop)
    os.makedirs(rdir, exist_ok=True)
    name = re.sub(r"[^A-Za-z0-9_.-]", "_", "%s__%s" % (g.gid, p.pid))
    path = os.path.join(rdir, name + ".json")
    inputs, ttxt = (None, "")
    try:
        inputs, ttxt = runner.trace_inputs(g, r, p.pid)
    except Exception as e:  # noqa
        ttxt = "trace extraction failed: %r" % (e,)
    rep = None
    if inputs:
        try:
            rep = native_replay(snap, g, inputs, os.path.join(runner.work, "replay_" + name))
        except Exception as e:  # noqa
            rep = {"outcome": "replay-error", "output": repr(e)}
    doc = {
        "property": prop, "group": g.gid, "function": g.function, "layer": g.layer, "shape": g.shape, "config": g.config,
        "obligation": p.pid, "description": p.desc, "location": "%s:%s (%s)" % (p.file, p.line, p.function),
        "harness": g.harness, "defines": g.defines, "tus": g.tus, "native_tus": g.native_tus, "extra_cflags": g.extra_cflags,
        "verifier_output": ttxt, "commands": r.cmds, "inputs": inputs, "native_replay": rep,
    }
    json.dump(doc, open(path, "w"), indent=1)
    reproduced = bool(rep and rep.get("outcome") == "reproduced")
    return path, reproduced


def summarize(prop, tier, seed, level, groups, results, snap, runner, t0, meta):
    """prints lines, writes evidence, returns exit code"""
    findings = load_findings()
    n_obl = n_dis = n_b_obl = n_b_dis = n_u_obl = n_u_dis = n_sup = 0
    violations, known, undecided, errors, unexplored = [], [], [], [], []
    canary_ok = canary_bad = 0
    ftable = {}
    samples = []
    solver_s = 0.0
    seen_v = set()
    for r in results:
        g = r.group
        solver_s += r.t_solve
        if g.canary:
            # must fail with an obligation matching canary_expect
            hit = [p for p in r.failures if re.search(g.canary_expect or ".", p.pid + " " + p.desc)]
            if r.state == "failed" and hit:
                canary_ok += 1
            elif g.exploratory and r.state == "undecided":
                unexplored.append("%s: %s" % (g.gid, r.reason))
            else:
                canary_bad += 1
                errors.append("%s: must-fail canary did not fail (%s %s) - contract/harness is vacuous" % (g.gid, r.state, r.reason))
            continue
        ent = ftable.setdefault((g.function, g.layer), {"function": g.function, "layer": g.layer, "harness": "harness/" + g.harness,
                                                        "mode": ("enforce" if (g.enforce or g.enforce_rec) else "assert-harness") + ("+replace" if g.replace else ""),
                                                        "replaced_callees": sorted(set(g.replace)), "loops": set(), "groups": 0, "obligations": 0,
                                                        "discharged": 0, "solver_s": 0.0, "shapes": [], "configs": set(), "bounded": g.bounded})
        ent["groups"] += 1
        ent["solver_s"] += r.t_solve
        ent["configs"].add(g.config)
        if g.shape and len(ent["shapes"]) < 12:
            ent["shapes"].append(g.shape)
        if g.loop_contracts:
            ent["loops"].add("invariant")
        if g.unwind is not None or r.unwindset:
            ent["loops"].add("unwound<=%s%s" % (g.unwind, "+set" if r.unwindset else ""))
        if r.state in ("error",):
            errors.append("%s: %s" % (g.gid, r.reason))
            continue
        if r.state == "undecided":
            (unexplored if g.exploratory else undecided).append("%s: %s" % (g.gid, r.reason))
            continue
        np_ = len(r.props)
        nd = sum(1 for p in r.props if p.status == "SUCCESS")
        ent["obligations"] += np_
        ent["discharged"] += nd
        if g.supporting:
            n_sup += np_
        else:
            n_obl += np_
            n_dis += nd
            if g.bounded:
                n_b_obl += np_
                n_b_dis += nd
            else:
                n_u_obl += np_
                n_u_dis += nd
        if len(samples) < 8 and r.props:
            cp = [p for p in r.props if CONTRACT_PID.search(p.pid)] or r.props
            samples.append({"group": g.gid, "shape": g.shape, "config": g.config, "obligation": cp[0].pid, "description": cp[0].desc,
                            "status": cp[0].status})
        for p in r.failures:
            f = finding_for(findings, prop, g.gid, p.pid)
            if f is not None:
                known.append((f, g, p))
                continue
            key = (g.function, g.harness, p.pid)
            if key in seen_v:
                continue
            seen_v.add(key)
            violations.append((r, p))

    for f, g, p in known:
        print("KNOWN-FINDING: property=%s %s [group=%s obligation=%s]" % (prop, re.sub(r"^finding:\s*property=\S+\s*", "", f["text"]), g.gid, p.pid))
    vcount = 0
    vlist = []
    MAXREP = 6
    import concurrent.futures as _cf
    with _cf.ThreadPoolExecutor(max_workers=MAXREP) as ex:
        reps = list(ex.map(lambda rp: make_replay(runner, snap, prop, rp[0], rp[1]), violations[:MAXREP]))
    for (r, p), (path, reproduced) in zip(violations[:MAXREP], reps):
        vcount += 1
        line = "VIOLATION property=%s replay=%s" % (prop, path)
        print("  refuted obligation %s in group %s: %s (%s:%s)" % (p.pid, r.group.gid, p.desc, os.path.basename(p.file), p.line))
        if not reproduced:
            line += " no-failing-input-found"
        print(line, flush=True)
        vlist.append({"group": r.group.gid, "obligation": p.pid, "replay": path, "reproduced_natively": reproduced})
    if len(violations) > MAXREP:
        print("  (%d further refuted obligations not replayed: %s)" % (len(violations) - MAXREP, ", ".join("%s/%s" % (r.group.gid, p.pid) for r, p in violations[MAXREP:MAXREP + 10])))
        vcount = len(violations)
    for e in errors[:20]:
        print("CHECK-ERROR: " + e[:600])
    for u in undecided[:20]:
        print("UNDECIDED: " + u[:400])
    for u in unexplored[:40]:
        print("UNEXPLORED (deeper-tier attempt without verdict, not counted): " + u[:300])

    for ent in ftable.values():
        ent["loops"] = sorted(ent["loops"]) or ["none/constant"]
        ent["configs"] = sorted(ent["configs"])
        ent["solver_s"] = round(ent["solver_s"], 1)
    assumptions = list(meta.get("assumptions", []))
    assumptions += scan_assumptions(groups)
    ev = {
        "property_id": prop, "tier": tier, "seed": seed, "level": level,
        "coverage": {
            "obligations": n_obl, "discharged": n_dis,
            "bounded_obligations": n_b_obl, "bounded_discharged": n_b_dis,
            "unbounded_obligations": n_u_obl, "unbounded_discharged": n_u_dis,
            "supporting_obligations": n_sup,
            "groups": len([r for r in results if not r.group.canary]),
            "groups_undecided": len(undecided), "groups_error": len(errors), "groups_unexplored": unexplored[:60],
            "canaries_failed_as_required": canary_ok, "canaries_broken": canary_bad,
            "evaluations": len(results), "distinct_nontrivial": len(set((r.group.function, r.group.shape, r.group.config) for r in results)),
            "rule": "one evaluation = one obligation group (function x contract x concrete shape x configuration) decided by CBMC for all contents; distinct = distinct (function, shape, config) tuples",
            "states": max(1, n_obl), "transitions": max(1, n_dis), "traces_validated_against_impl": sum(1 for v in vlist if v["reproduced_natively"]),
            "checker_cmd": meta.get("checker_cmd", "goto-cc --function harness <harness.c> <lib>.gb ; goto-instrument --dfcc harness --enforce-contract <f> [--replace-call-with-contract <g>] [--apply-loop-contracts] ; cbmc --json-ui --no-malloc-may-fail [--unwind N --unwindset ... --unwinding-assertions]"),
            "trusted_base": meta.get("trusted_base", ["CBMC 6.11.0 (goto-cc C front end, dfcc contract instrumentation, bit-precise SAT encoding, MiniSat)",
                                                        "contract/spec text in /verif/contracts (VP_BIT, VP_W, closed-form specs)",
                                                        "gcc 12 + ASan/UBSan for native replay"]),
            "functions": sorted(ftable.values(), key=lambda e: e["function"]),
            "samples": samples or [{"note": "no group produced obligations"}],
            "solver_seconds": round(solver_s, 1),
            "back_end": "cbmc 6.11.0 / MiniSat 2.2.1 (default); CaDiCaL where a group says so; layer B runs MiniSat and CaDiCaL side by side and takes the first verdict",
            "repo_tree_hash": snap.tree_hash if snap else "",
            "loop_contract_insertions": snap.loop_diffs if snap else [],
            "explanation": meta.get("explanation", ""),
            "exhaustive": False,
            "violations_detail": vlist,
        },
        "assumptions": assumptions,
        "wall_s": round(time.time() - t0, 1),
        "violations": vcount,
    }
    ev["coverage"].update(meta.get("coverage_extra", {}))
    os.makedirs(os.path.join(VERIF, "evidence"), exist_ok=True)
    json.dump(ev, open(os.path.join(VERIF, "evidence", prop + ".json"), "w"), indent=1, default=list)

    print("SUMMARY property=%s tier=%s groups=%d obligations=%d discharged=%d (unbounded %d/%d, bounded %d/%d) known=%d violations=%d undecided=%d errors=%d wall=%.0fs"
          % (prop, tier, len(results), n_obl, n_dis, n_u_dis, n_u_obl, n_b_dis, n_b_obl, len(known), vcount, len(undecided), len(errors), time.time() - t0))
    if vcount:
        return core.EXIT_VIOLATION
    if errors or undecided or n_obl == 0:
        return core.EXIT_UNDECIDED
    return core.EXIT_OK


def scan_assumptions(groups):
    """mechanical scan of the harness / contract / stub files actually compiled for assume/stub markers"""
    out = []
    files = set(os.path.join(VERIF, "harness", g.harness) for g in groups)
    incs = set()
    todo = list(files)
    while todo:   # transitive closure over the local includes
        f = todo.pop()
        try:
            for m in re.finditer(r'#include\s+"([^"]+)"', open(f).read()):
                for base in ("contracts", "harness", "stubs"):
                    p = os.path.join(VERIF, base, m.group(1))
                    if os.path.isfile(p) and p not in incs:
                        incs.add(p)
                        todo.append(p)
        except OSError:
            pass
    n_assume = 0
    for f in sorted(files | incs):
        try:
            txt = open(f).read()
        except OSError:
            continue
        n = len(re.findall(r"\b(VP_ASSUME|__CPROVER_assume)\s*\(", txt))
        n_assume += n
        for m in re.finditer(r"VP-ASSUMPTION:\s*(.*)", txt):
            out.append("%s: %s" % (os.path.relpath(f, VERIF), m.group(1).strip().rstrip("*/").strip()))
    out.append("input-shaping assumptions (VP_ASSUME/__CPROVER_assume) in the compiled harness/contract files: %d occurrences; they constrain harness inputs (index ranges, ghost ranges, representation invariant of operands), never library state after the call" % n_assume)
    enforced = set(f for g in groups for f in list(g.enforce) + list(g.enforce_rec))
    replaced = set(f for g in groups for f in g.replace)
    if replaced - enforced:
        out.append("callee contracts used for call replacement (modular reasoning) and not themselves enforced by a group of this check -- assumed here, "
                   "enforced where another check lists the function under contract: " + ", ".join(sorted(replaced - enforced)))
    ub = sorted(set("%s: --unwind %s %s" % (g.function, g.unwind, g.bound_note) for g in groups if g.bounded and (g.unwind is not None or g.bound_note)))
    out += ["bound: " + u for u in ub[:40]]
    cfgs = sorted(set(g.config for g in groups))
    out.append("configurations compiled: " + ", ".join("%s %s" % (c, core.CONFIGS[c] or "(as configured in /repo)") for c in cfgs))
    out.append("load-time constructor/destructor not executed (-Dconstructor=unused -Ddestructor=unused); their bodies are verified where called explicitly")
    out.append("machine arithmetic is bit-precise (not mathematical integers); row geometry is concrete per group")
    return out
