"""Mechanical, add-only insertion of loop contracts into the scratch copy of /repo.

/verif/loops/<file>.json:
  {"file": "strassen.c",
   "insertions": [{"function": "_mzd_mul_even", "loop": 1, "kind": "while",
                   "clauses": ["__CPROVER_assigns(width, mult)", "__CPROVER_loop_invariant(...)", ...]}]}

A loop is addressed by (function name, ordinal of the for/while keyword inside that function's
body, counting from 1 after comments and string literals are blanked; the trailing `while (...);`
of a do-while is not counted).  `kind` must match the keyword found.  The clauses are inserted
between the closing parenthesis of the loop header and the loop body.  Any mismatch raises
MachineryError("EXTRACTION-BROKEN ...") => exit 2, never a violation.
"""
import difflib
import json
import os
import re

from . import core


def _blank(txt):
    out = list(txt)
    i, n = 0, len(txt)
    while i < n:
        c = txt[i]
        if txt.startswith("/*", i):
            j = txt.find("*/", i + 2)
            j = n if j < 0 else j + 2
            for k in range(i, j):
                if out[k] != "\n":
                    out[k] = " "
            i = j
        elif txt.startswith("//", i):
            j = txt.find("\n", i)
            j = n if j < 0 else j
            for k in range(i, j):
                out[k] = " "
            i = j
        elif c == '"' or c == "'":
            j = i + 1
            while j < n and txt[j] != c:
                j += 2 if txt[j] == "\\" else 1
            for k in range(i + 1, min(j, n)):
                if out[k] != "\n":
                    out[k] = " "
            i = j + 1
        else:
            i += 1
    return "".join(out)


def _match(txt, i, open_c, close_c):
    depth = 0
    for j in range(i, len(txt)):
        if txt[j] == open_c:
            depth += 1
        elif txt[j] == close_c:
            depth -= 1
            if depth == 0:
                return j
    return -1


def find_function_body(blank, name):
    """returns (start, end) offsets of the body braces of the definition of `name`"""
    for m in re.finditer(r"\b%s\s*\(" % re.escape(name), blank):
        # must be at brace depth 0
        if blank.count("{", 0, m.start()) != blank.count("}", 0, m.start()):
            continue
        close = _match(blank, m.end() - 1, "(", ")")
        if close < 0:
            continue
        k = close + 1
        while k < len(blank) and blank[k] in " \t\r\n":
            k += 1
        if k < len(blank) and blank[k] == "{":
            end = _match(blank, k, "{", "}")
            if end > 0:
                return k, end
    return None


def loops_in(blank, start, end):
    """list of (keyword, keyword_offset, header_close_offset) of for/while loops inside [start,end]"""
    res = []
    for m in re.finditer(r"\b(for|while)\b", blank[start:end]):
        kw = m.group(1)
        off = start + m.start()
        k = start + m.end()
        while blank[k] in " \t\r\n":
            k += 1
        if blank[k] != "(":
            continue
        close = _match(blank, k, "(", ")")
        k2 = close + 1
        while blank[k2] in " \t\r\n":
            k2 += 1
        if kw == "while" and blank[k2] == ";":
            continue   # tail of a do-while (or an empty loop): not addressable
        res.append((kw, off, close))
    return res


def apply_file(path, spec):
    txt = open(path).read()
    blank = _blank(txt)
    edits = []
    for ins in spec.get("insertions", []):
        body = find_function_body(blank, ins["function"])
        if body is None:
            raise core.MachineryError("EXTRACTION-BROKEN: function %s not found in %s" % (ins["function"], os.path.basename(path)))
        ls = loops_in(blank, body[0], body[1])
        n = ins["loop"]
        if n < 1 or n > len(ls):
            raise core.MachineryError("EXTRACTION-BROKEN: %s has %d loops, loop %d requested" % (ins["function"], len(ls), n))
        kw, off, close = ls[n - 1]
        if ins.get("kind") and ins["kind"] != kw:
            raise core.MachineryError("EXTRACTION-BROKEN: loop %d of %s is a %s loop, %s expected" % (n, ins["function"], kw, ins["kind"]))
        if ins.get("header_contains") and ins["header_contains"] not in re.sub(r"\s+", " ", txt[off:close + 1]):
            raise core.MachineryError("EXTRACTION-BROKEN: header of loop %d of %s no longer contains %r" % (n, ins["function"], ins["header_contains"]))
        edits.append((close + 1, "\n" + "\n".join("    " + c for c in ins["clauses"]) + "\n"))
    # assertions in front of a statement (e.g. 16-byte alignment of vector operands): anchored by function + exact statement text
    for ins in spec.get("asserts", []):
        body = find_function_body(blank, ins["function"])
        if body is None:
            raise core.MachineryError("EXTRACTION-BROKEN: function %s not found in %s" % (ins["function"], os.path.basename(path)))
        pos, found = body[0], []
        while True:
            k = txt.find(ins["anchor"], pos, body[1])
            if k < 0:
                break
            found.append(k)
            pos = k + 1
        if len(found) != ins.get("count", 1):
            raise core.MachineryError("EXTRACTION-BROKEN: %s: statement %r occurs %d times, %d expected" % (ins["function"], ins["anchor"], len(found), ins.get("count", 1)))
        for k in found:
            edits.append((k, ins["text"] + "\n      "))
    for at, text in sorted(edits, reverse=True):
        txt = txt[:at] + text + txt[at:]
    if spec.get("prelude"):
        # declarations of ghost variables the inserted clauses mention; appended after the last #include
        incs = list(re.finditer(r"^[ \t]*#[ \t]*include[^\n]*\n", txt, flags=re.M))
        if not incs:
            raise core.MachineryError("EXTRACTION-BROKEN: no #include in %s to anchor the prelude" % os.path.basename(path))
        at = incs[-1].end()
        txt = txt[:at] + "\n".join(spec["prelude"]) + "\n" + txt[at:]
    return txt


def apply_all(srcdir, loopsdir):
    diffs = []
    if not os.path.isdir(loopsdir):
        return diffs
    for fn in sorted(os.listdir(loopsdir)):
        if not fn.endswith(".json"):
            continue
        spec = json.load(open(os.path.join(loopsdir, fn)))
        path = os.path.join(srcdir, spec["file"])
        if not os.path.isfile(path):
            raise core.MachineryError("EXTRACTION-BROKEN: %s missing" % spec["file"])
        old = open(path).read()
        new = apply_file(path, spec)
        open(path, "w").write(new)
        d = list(difflib.unified_diff(old.splitlines(), new.splitlines(), "repo/m4ri/" + spec["file"], "scratch/m4ri/" + spec["file"], lineterm="", n=1))
        # add-only: deleting the inserted clauses gives back the original text (modulo white space)
        chk = new
        for ins in spec.get("insertions", []):
            for c in ins["clauses"]:
                chk = chk.replace(c, "", 1)
        for ins in spec.get("asserts", []):
            for _ in range(ins.get("count", 1)):
                chk = chk.replace(ins["text"], "", 1)
        for c in spec.get("prelude", []):
            chk = chk.replace(c, "", 1)
        if re.sub(r"\s+", "", chk) != re.sub(r"\s+", "", old):
            raise core.MachineryError("EXTRACTION-BROKEN: loop insertion changed existing text in %s" % spec["file"])
        diffs.append("\n".join(d))
    return diffs
