"""Core of the verification driver: snapshot of /repo, goto-cc / goto-instrument / cbmc
pipeline per obligation group, result parsing, scheduling.

Nothing here knows about individual properties; the per-property group tables live in
/verif/checks/*.py.
"""
import atexit
import concurrent.futures as cf
import dataclasses
import hashlib
import json
import os
import re
import resource
import shutil
import signal
import subprocess
import tempfile
import threading
import time
from dataclasses import dataclass, field
from typing import Dict, List, Optional

VERIF = os.path.dirname(os.path.dirname(os.path.dirname(os.path.abspath(__file__))))
REPO = os.environ.get("VERIF_REPO", "/repo")
NCPU = int(os.environ.get("VERIF_JOBS", "16"))

EXIT_OK, EXIT_VIOLATION, EXIT_UNDECIDED = 0, 1, 2


class MachineryError(Exception):
    """extraction break, tool crash, timeouts ... => exit 2, never a violation"""


# --------------------------------------------------------------------------------------
# configurations (m4ri_config.h variants)
# --------------------------------------------------------------------------------------
CONFIGS = {
    # name: dict of overrides applied to the generated m4ri_config.h ("host" = as configured)
    "host": {},
    "scalar": {"__M4RI_HAVE_SSE2": "0"},
    "small": {"__M4RI_CPU_L1_CACHE": "4096", "__M4RI_CPU_L2_CACHE": "32768", "__M4RI_CPU_L3_CACHE": "65536"},
    "scalar_small": {"__M4RI_HAVE_SSE2": "0", "__M4RI_CPU_L1_CACHE": "4096", "__M4RI_CPU_L2_CACHE": "32768",
                     "__M4RI_CPU_L3_CACHE": "65536"},
    "mid": {"__M4RI_CPU_L1_CACHE": "16384", "__M4RI_CPU_L2_CACHE": "262144", "__M4RI_CPU_L3_CACHE": "4194304"},
    "nocache": {"__M4RI_ENABLE_MZD_CACHE": "0", "__M4RI_ENABLE_MMC": "0"},
    "scalar_nocache": {"__M4RI_HAVE_SSE2": "0", "__M4RI_ENABLE_MZD_CACHE": "0", "__M4RI_ENABLE_MMC": "0"},
    # sub-domain configurations (outside the property's quantifier; "supporting" only)
    "tinyL3": {"__M4RI_HAVE_SSE2": "0", "__M4RI_CPU_L1_CACHE": "4096", "__M4RI_CPU_L2_CACHE": "4096",
               "__M4RI_CPU_L3_CACHE": "4096"},
}

LIB_TUS = ["brilliantrussian", "debug_dump", "djb", "echelonform", "graycode", "io", "misc", "mmc", "mp", "mzd",
           "mzp", "ple", "ple_russian", "solve", "strassen", "triangular", "triangular_russian"]

BASE_CFLAGS = ["-DHAVE_CONFIG_H", "-DM4RI_VERIF", "-Dconstructor=unused", "-Ddestructor=unused"]


def _run(cmd, timeout=None, mem_gb=None, cwd=None, env=None):
    """run a command, return (rc, stdout, stderr, seconds, timed_out)"""
    def pre():
        os.setsid()
        if mem_gb:
            lim = int(mem_gb * (1 << 30))
            resource.setrlimit(resource.RLIMIT_AS, (lim, lim))
    t0 = time.time()
    p = subprocess.Popen(cmd, stdout=subprocess.PIPE, stderr=subprocess.PIPE, cwd=cwd, env=env, preexec_fn=pre,
                         text=True, errors="replace")
    try:
        out, err = p.communicate(timeout=timeout)
        to = False
    except subprocess.TimeoutExpired:
        try:
            os.killpg(p.pid, signal.SIGKILL)
        except ProcessLookupError:
            pass
        out, err = p.communicate()
        to = True
    return p.returncode, out, err, time.time() - t0, to


def _run_portfolio(cmds, timeout=None, mem_gb=None):
    """run the same query with several SAT back ends side by side; the first process that ends with a verdict
    (cbmc exit code 0 or 10) wins and the others are stopped.  Returns (rc, stdout, stderr, seconds, timed_out, index)."""
    import tempfile as _tf
    def pre():
        os.setsid()
        if mem_gb:
            lim = int(mem_gb * (1 << 30))
            resource.setrlimit(resource.RLIMIT_AS, (lim, lim))
    t0 = time.time()
    procs = []
    for c in cmds:
        fo, fe = _tf.TemporaryFile(mode="w+"), _tf.TemporaryFile(mode="w+")
        procs.append((subprocess.Popen(c, stdout=fo, stderr=fe, preexec_fn=pre, text=True), fo, fe))
    def kill(p):
        try:
            os.killpg(p.pid, signal.SIGKILL)
        except ProcessLookupError:
            pass
        p.wait()
    def read(f):
        f.seek(0)
        return f.read()
    done = {}
    try:
        while True:
            for i, (p, fo, fe) in enumerate(procs):
                if i not in done and p.poll() is not None:
                    done[i] = p.returncode
                    if p.returncode in (0, 10):
                        return p.returncode, read(fo), read(fe), time.time() - t0, False, i
            if len(done) == len(procs):
                i = max(done)
                return done[i], read(procs[i][1]), read(procs[i][2]), time.time() - t0, False, i
            if timeout is not None and time.time() - t0 > timeout:
                return -1, "", "", time.time() - t0, True, -1
            time.sleep(0.2)
    finally:
        for p, fo, fe in procs:
            if p.poll() is None:
                kill(p)
            fo.close(), fe.close()


class Snapshot:
    """A scratch copy of /repo's current working tree (m4ri/*.c, *.h, config headers), one
    directory per configuration, outside /repo and /verif; removed at exit."""

    def __init__(self, keep=False):
        base = os.environ.get("TMPDIR", "/tmp")
        self.root = tempfile.mkdtemp(prefix="verif-m4ri-", dir=base)
        if not keep:
            atexit.register(shutil.rmtree, self.root, True)
        self.lock = threading.Lock()
        self.cfg_ready: Dict[str, str] = {}
        self.obj_ready: Dict[tuple, str] = {}
        self.obj_locks: Dict[tuple, threading.Lock] = {}
        self.loop_diffs: List[str] = []
        self.src = os.path.join(REPO, "m4ri")
        if not os.path.isfile(os.path.join(self.src, "m4ri_config.h")):
            raise MachineryError("EXTRACTION-BROKEN: %s/m4ri_config.h missing (run ./configure in /repo)" % self.src)
        self._check_ctor()
        self.tree_hash = self._hash_tree()

    def _hash_tree(self):
        h = hashlib.sha256()
        for fn in sorted(os.listdir(self.src)):
            if fn.endswith((".c", ".h")):
                h.update(fn.encode())
                with open(os.path.join(self.src, fn), "rb") as f:
                    h.update(f.read())
        return h.hexdigest()[:16]

    def _check_ctor(self):
        # the identifiers constructor/destructor may only occur inside __attribute__((...)) of m4ri_init/fini
        n = 0
        for fn in os.listdir(self.src):
            if fn.endswith((".c", ".h")):
                txt = open(os.path.join(self.src, fn), errors="replace").read()
                for m in re.finditer(r"\b(constructor|destructor)\b", _strip_comments(txt)):
                    ctx = _strip_comments(txt)[max(0, m.start() - 20):m.end() + 3]
                    if "__attribute__((" + m.group(1) + "))" not in ctx.replace(" ", ""):
                        raise MachineryError("EXTRACTION-BROKEN: identifier %s used outside an attribute in %s" % (m.group(1), fn))
                    n += 1
        if n == 0:
            raise MachineryError("EXTRACTION-BROKEN: no constructor attribute found (m4ri_init changed?)")

    def cfg_dir(self, cfg: str) -> str:
        with self.lock:
            if cfg in self.cfg_ready:
                if isinstance(self.cfg_ready[cfg], Exception):
                    raise self.cfg_ready[cfg]
                return self.cfg_ready[cfg]
            try:
                return self._make_cfg(cfg)
            except Exception as e:
                self.cfg_ready[cfg] = e if isinstance(e, MachineryError) else MachineryError("snapshot failed: %r" % (e,))
                raise self.cfg_ready[cfg]

    def _make_cfg(self, cfg):
        if True:
            d = os.path.join(self.root, "cfg_" + cfg)
            os.makedirs(os.path.join(d, "m4ri"))
            for fn in os.listdir(self.src):
                if fn.endswith((".c", ".h")):
                    shutil.copy2(os.path.join(self.src, fn), os.path.join(d, "m4ri", fn))
            ov = CONFIGS[cfg]
            if ov:
                p = os.path.join(d, "m4ri", "m4ri_config.h")
                txt = open(p).read()
                for k, v in ov.items():
                    txt, cnt = re.subn(r"(#define\s+%s\s+)\S+" % re.escape(k), lambda m: m.group(1) + v, txt, count=1)
                    if cnt != 1:
                        raise MachineryError("EXTRACTION-BROKEN: %s not defined in m4ri_config.h" % k)
                open(p, "w").write(txt)
            # mechanical loop-contract insertion (additions only)
            from . import loopins
            self.loop_diffs += loopins.apply_all(os.path.join(d, "m4ri"), os.path.join(VERIF, "loops"))
            self.cfg_ready[cfg] = d
            return d

    def libm_table(self, cfg: str) -> str:
        """generate the libm stub for this configuration: sqrt/log2/round only occur in tuning expressions over the
        cache-size constants and small integers; the table maps exactly those arguments to the values of the host libm
        (python's math uses the same C library) and asserts on any other argument"""
        import math
        d = self.cfg_dir(cfg)
        out = os.path.join(d, "libm_table.c")
        with self.lock:
            if os.path.isfile(out):
                return out
            txt = open(os.path.join(d, "m4ri", "m4ri_config.h")).read()
            def val(k, default):
                m = re.search(r"#define\s+%s\s+(\d+)" % k, txt)
                v = int(m.group(1)) if m else 0
                return v if v else default
            l1, l2, l3 = val("__M4RI_CPU_L1_CACHE", 16384), val("__M4RI_CPU_L2_CACHE", 262144), val("__M4RI_CPU_L3_CACHE", 0)
            if l3 == 0:
                l3 = l2 if l2 else 4194304
            lines = ["/* generated: libm values for the tuning expressions of configuration %s (L1=%d L2=%d L3=%d) */" % (cfg, l1, l2, l3),
                     "double sqrt(double x) {"]
            for a in sorted(set([4 * l3])):
                lines.append("  if (x == %r) return %r;" % (float(a), math.sqrt(a)))
            lines += ['  __CPROVER_assert(0, "libm stub: sqrt called with an argument outside the tuning expressions");', "  return 0.0;", "}", "double log2(double x) {"]
            for w in range(1, 65):
                a = (l2 // 64) / float(w)
                lines.append("  if (x == %r) return %r;" % (a, math.log2(a) if a > 0 else 0.0))
            lines += ['  __CPROVER_assert(0, "libm stub: log2 called with an argument outside the tuning expressions");', "  return 0.0;", "}", "double round(double x) {"]
            for f in range(0, 32):
                a = 0.75 * f
                lines.append("  if (x == %r) return %r;" % (a, float(round(a)) if (a % 1) != 0.5 else float(math.floor(a + 0.5))))
            lines += ['  __CPROVER_assert(0, "libm stub: round called with an argument outside the tuning expressions");', "  return 0.0;", "}"]
            open(out, "w").write("\n".join(lines) + "\n")
        return out

    def cflags(self, cfg: str) -> List[str]:
        d = self.cfg_dir(cfg)
        return BASE_CFLAGS + ["-I" + d, "-I" + os.path.join(d, "m4ri"), "-I" + os.path.join(VERIF, "contracts"),
                              "-I" + os.path.join(VERIF, "harness"), "-I" + os.path.join(VERIF, "stubs")]

    def lib_obj(self, cfg: str, tu: str, extra: tuple = ()) -> str:
        """goto-cc -c one library translation unit (cached per config within this run)"""
        key = (cfg, tu, extra)
        with self.lock:
            lk = self.obj_locks.setdefault(key, threading.Lock())
        with lk:
            if key in self.obj_ready:
                return self.obj_ready[key]
            d = self.cfg_dir(cfg)
            if tu == "@libm":
                srcf = self.libm_table(cfg)
                name = "libm_table"
            elif tu.startswith("/"):
                srcf = tu
                name = os.path.basename(tu)[:-2]
            else:
                srcf = os.path.join(d, "m4ri", tu + ".c")
                name = tu
            tag = hashlib.md5(repr(extra).encode()).hexdigest()[:6] if extra else "std"
            out = os.path.join(d, "%s.%s.gb" % (name, tag))
            rc, so, se, dt, to = _run(["goto-cc"] + self.cflags(cfg) + list(extra) + ["-c", srcf, "-o", out], timeout=300)
            if rc != 0 or to:
                raise MachineryError("goto-cc failed on %s [%s]: %s" % (tu, cfg, (se or so)[-2000:]))
            self.obj_ready[key] = out
            return out


def _strip_comments(txt: str) -> str:
    txt = re.sub(r"/\*.*?\*/", lambda m: re.sub(r"[^\n]", " ", m.group(0)), txt, flags=re.S)
    txt = re.sub(r"//[^\n]*", lambda m: " " * len(m.group(0)), txt)
    return txt


# --------------------------------------------------------------------------------------
# obligation groups
# --------------------------------------------------------------------------------------
@dataclass
class Group:
    gid: str                                   # unique id of the group
    props: List[str]                           # property ids this group bears on
    harness: str                               # path relative to /verif/harness
    function: str                              # function(s) under contract, for the evidence table
    layer: str = "K"                           # K | S | B | P (word-level proof) | A (allocator) ...
    defines: Dict[str, object] = field(default_factory=dict)
    tus: List[str] = field(default_factory=list)        # library TUs linked (goto objects)
    entry: str = "harness"
    enforce: List[str] = field(default_factory=list)
    enforce_rec: List[str] = field(default_factory=list)
    replace: List[str] = field(default_factory=list)
    loop_contracts: bool = False
    cbmc_flags: List[str] = field(default_factory=list)
    unwind: Optional[int] = None
    unwindset: Dict[str, int] = field(default_factory=dict)
    refine: bool = False                       # unwinding refinement loop
    config: str = "host"
    bounded: bool = True                       # False => unbounded (proof) group
    bound_note: str = ""                       # statement of the bound, for the evidence
    timeout: int = 300
    mem_gb: float = 12
    slots: int = 1                             # scheduler weight
    malloc_may_fail: bool = False
    object_bits: Optional[int] = None
    canary: bool = False                       # must-fail group (vacuity guard)
    canary_expect: str = ""                    # regex an expected failing property must match
    covers: bool = False                       # run --cover cover to check reachability of VP_COVER points
    extra_cflags: List[str] = field(default_factory=list)
    shape: str = ""                            # human readable shape tuple
    supporting: bool = False                   # outside the property's quantifier, reported separately
    exploratory: bool = False                  # deeper-tier-only group: no verdict (time/memory) is reported as UNEXPLORED, not as undecided
    native_tus: Optional[List[str]] = None     # TUs for the native replay build (default: tus)
    min_obligations: int = 1
    solver: Optional[str] = None               # e.g. "--sat-solver cadical"
    remove_bodies: List[str] = field(default_factory=list)   # function bodies dropped BEFORE dfcc (functions outside the group, unreachable after call replacement)
    spec_unwind: Optional[int] = None           # bound for all loops of spec-side functions (vp_*): known from the instance's constants
    assert_mode: bool = False                  # compile with -DVP_ASSERT_MODE: contract text assumed/asserted by the harness, no dfcc instrumentation
    pre_unwindset: Dict[str, int] = field(default_factory=dict)   # loops unwound by goto-instrument BEFORE dfcc (contract-less loops enclosing contracted ones)


@dataclass
class PropResult:
    pid: str
    status: str
    desc: str
    file: str = ""
    line: str = ""
    function: str = ""


@dataclass
class GroupResult:
    group: Group
    state: str = "ok"            # ok | failed | undecided | error
    reason: str = ""
    props: List[PropResult] = field(default_factory=list)
    t_compile: float = 0.0
    t_instrument: float = 0.0
    t_solve: float = 0.0
    unwindset: Dict[str, int] = field(default_factory=dict)
    refine_rounds: int = 0
    cmds: List[str] = field(default_factory=list)
    log_tail: str = ""
    gb: str = ""                 # path of the instrumented goto binary (kept until the run ends)
    covers_total: int = 0
    covers_hit: int = 0

    @property
    def failures(self):
        return [p for p in self.props if p.status == "FAILURE"]


def _parse_cbmc_json(out: str):
    """returns (props, status, errors, warnings)"""
    try:
        d = json.loads(out)
    except Exception:
        # truncated output (timeout/kill): try to salvage nothing
        return None, None, ["unparsable cbmc output (%d bytes)" % len(out)], []
    props, status, errors, warns = [], None, [], []
    for e in d:
        if "result" in e:
            for r in e["result"]:
                sl = r.get("sourceLocation", {})
                props.append(PropResult(r.get("property", "?"), r.get("status", "?"), r.get("description", ""),
                                        sl.get("file", ""), sl.get("line", ""), sl.get("function", "")))
        elif "cProverStatus" in e:
            status = e["cProverStatus"]
        elif e.get("messageType") == "ERROR":
            errors.append(e.get("messageText", ""))
        elif e.get("messageType") == "WARNING":
            warns.append(e.get("messageText", ""))
        if "goals" in e:   # cover mode
            for g in e["goals"]:
                sl = g.get("sourceLocation", {})
                props.append(PropResult(g.get("goal", "?"), "COVERED" if g.get("status") == "satisfied" else "UNCOVERED",
                                        g.get("description", ""), sl.get("file", ""), sl.get("line", ""), sl.get("function", "")))
    return props, status, errors, warns


class Runner:
    def __init__(self, snap: Snapshot, workdir: Optional[str] = None):
        self.snap = snap
        self.work = workdir or os.path.join(snap.root, "work")
        os.makedirs(self.work, exist_ok=True)

    # ------------------------------------------------------------------ build
    def build(self, g: Group, res: GroupResult) -> Optional[str]:
        gdir = os.path.join(self.work, re.sub(r"[^A-Za-z0-9_.-]", "_", g.gid))
        os.makedirs(gdir, exist_ok=True)
        # a TU may carry its own extra compile flags: "solve|-Dfoo=bar|-Dbaz"
        objs = [self.snap.lib_obj(g.config, tu.split("|")[0], tuple(tu.split("|")[1:])) for tu in g.tus]
        defs = ["-D%s=%s" % (k, v) if v is not None else "-D%s" % k for k, v in g.defines.items()]
        if g.assert_mode:
            defs.append("-DVP_ASSERT_MODE")
        if g.canary:
            defs.append("-DVP_CANARY")
        hsrc = os.path.join(VERIF, "harness", g.harness)
        gb0 = os.path.join(gdir, "h.gb")
        cmd = ["goto-cc"] + self.snap.cflags(g.config) + defs + g.extra_cflags + ["--function", g.entry, hsrc] + objs + ["-o", gb0]
        res.cmds.append(" ".join(cmd))
        rc, so, se, dt, to = _run(cmd, timeout=600)
        res.t_compile = dt
        if rc != 0 or to:
            res.state, res.reason = "error", "goto-cc failed: " + (se or so)[-3000:]
            return None
        if g.assert_mode:
            g.enforce = []
        need_dfcc = g.enforce or g.enforce_rec or g.replace or g.loop_contracts
        if g.remove_bodies:
            gbr = os.path.join(gdir, "hr.gb")
            cmd = ["goto-instrument"] + [x for f in g.remove_bodies for x in ("--remove-function-body", f)] + [gb0, gbr]
            res.cmds.append(" ".join(cmd))
            rc, so, se, dt, to = _run(cmd, timeout=600, mem_gb=g.mem_gb)
            res.t_instrument += dt
            if rc != 0 or to:
                res.state, res.reason = "error", "EXTRACTION-BROKEN: removing function bodies failed: " + (so + se)[-1500:]
                return None
            gb0 = gbr
        if g.pre_unwindset:
            gbu = os.path.join(gdir, "hu.gb")
            cmd = ["goto-instrument", "--unwindset", ",".join("%s:%d" % kv for kv in sorted(g.pre_unwindset.items())), "--unwinding-assertions", gb0, gbu]
            res.cmds.append(" ".join(cmd))
            rc, so, se, dt, to = _run(cmd, timeout=600, mem_gb=g.mem_gb)
            res.t_instrument += dt
            if rc != 0 or to or "does not match any loop" in (so + se):
                res.state, res.reason = "error", "EXTRACTION-BROKEN: pre-unwinding failed: " + (so + se)[-1500:]
                return None
            gb0 = gbu
        gb1 = gb0
        if need_dfcc:
            gb1 = os.path.join(gdir, "hi.gb")
            cmd = ["goto-instrument", "--dfcc", g.entry]
            for f in g.enforce:
                cmd += ["--enforce-contract", f]
            for f in g.enforce_rec:
                cmd += ["--enforce-contract-rec", f]
            replace = list(g.replace)
            if replace:
                # dfcc aborts on a replacement target that is not in the symbol table (a callee the code under proof no longer
                # references is dropped at link time): such targets are skipped, see the must-fire rule below
                rc, so, se, dt, to = _run(["goto-instrument", "--show-symbol-table", gb0], timeout=300)
                if rc == 0 and not to:
                    syms = set(re.findall(r"^Symbol\.+: (\S+)$", so, flags=re.M))
                    replace = [f for f in replace if f in syms]
            for f in replace:
                cmd += ["--replace-call-with-contract", f]
            if g.loop_contracts:
                cmd += ["--apply-loop-contracts"]
            cmd += [gb0, gb1]
            res.cmds.append(" ".join(cmd))
            rc, so, se, dt, to = _run(cmd, timeout=900, mem_gb=g.mem_gb)
            res.t_instrument += dt
            log = so + se
            if rc != 0 or to:
                res.state, res.reason = "error", "goto-instrument failed: " + log[-3000:]
                return None
            # must-fire: every requested contract was really wrapped / replaced
            for f in g.enforce + g.enforce_rec:
                if not re.search(r"Wrapping '%s' with contract '%s' in CHECK mode" % (re.escape(f), re.escape(f)), log):
                    res.state, res.reason = "error", "EXTRACTION-BROKEN: contract of %s was not enforced (function renamed/removed?)" % f
                    return None
            # a callee contract that is no longer used is not an extraction failure (the code under proof may have stopped calling
            # it -- the remaining obligations decide that); a callee without body and without contract fails CBMC's own
            # "no body for callee" obligation.  At least one replacement must have happened where any was requested.
            fired = [f for f in g.replace if re.search(r"Wrapping '%s' with contract '%s' in REPLACE mode" % (re.escape(f), re.escape(f)), log)]
            if g.replace and not fired:
                res.state, res.reason = "error", "EXTRACTION-BROKEN: none of the callee contracts (%s) was used for replacement" % ", ".join(g.replace)
                return None
        res.gb = gb1
        return gb1

    # constant-bound loops of the two caches (16 slots / 16 header blocks): always unwound completely
    CACHE_LOOPS = {"m4ri_mmc_malloc.0": 17, "m4ri_mmc_free.0": 17, "m4ri_mmc_cleanup.0": 17, "mzd_t_malloc.0": 18, "mzd_t_free.0": 18}

    def cbmc_cmd(self, g: Group, gb: str, unwindset: Dict[str, int], extra: List[str] = ()):
        if g.unwind is not None and g.unwind < 18:
            unwindset = dict(self.CACHE_LOOPS, **unwindset)
        cmd = ["cbmc", gb, "--json-ui"]
        if not g.malloc_may_fail:
            cmd.append("--no-malloc-may-fail")
        if g.unwind is not None:
            cmd += ["--unwind", str(g.unwind)]
        if unwindset:
            cmd += ["--unwindset", ",".join("%s:%d" % kv for kv in sorted(unwindset.items()))]
        if g.unwind is not None or unwindset:
            cmd.append("--unwinding-assertions")
        if g.object_bits:
            cmd += ["--object-bits", str(g.object_bits)]
        if g.solver and g.solver != "portfolio":
            cmd += g.solver.split()
        cmd += g.cbmc_flags
        cmd += list(extra)
        return cmd

    # ------------------------------------------------------------------ run
    def run(self, g: Group) -> GroupResult:
        res = GroupResult(g)
        try:
            gb = self.build(g, res)
        except MachineryError as e:
            res.state, res.reason = "error", str(e)
            return res
        if gb is None:
            return res
        us = dict(g.unwindset)
        if g.spec_unwind:
            rc, so, se, dt, to = _run(["goto-instrument", "--show-loops", gb], timeout=300)
            for m in re.finditer(r"^Loop (\S+):", so, flags=re.M):
                if m.group(1).startswith("vp_") or m.group(1).startswith("harness."):
                    us.setdefault(m.group(1), g.spec_unwind)
        if g.refine:
            ok = self._refine(g, gb, us, res)
            if not ok:
                return res
        res.unwindset = us
        cmd = self.cbmc_cmd(g, gb, us)
        if g.solver == "portfolio":
            # MiniSat and CaDiCaL differ by an order of magnitude in either direction on these formulas (measured); both are run
            alts = [cmd, cmd + ["--sat-solver", "cadical"]]
            rc, so, se, dt, to, win = _run_portfolio(alts, timeout=g.timeout, mem_gb=g.mem_gb)
            cmd = alts[win] if win >= 0 else cmd
        else:
            rc, so, se, dt, to = _run(cmd, timeout=g.timeout, mem_gb=g.mem_gb)
        res.cmds.append(" ".join(cmd))
        res.t_solve += dt
        if to:
            res.state, res.reason = "undecided", "cbmc timeout after %ds" % g.timeout
            return res
        props, status, errors, warns = _parse_cbmc_json(so)
        if props is None or status is None:
            res.state = "undecided"
            res.reason = "cbmc gave no verdict (rc=%s; out of memory or crash?): %s %s" % (rc, "; ".join(errors)[:500], se[-500:])
            return res
        for w in warns:
            if "ignoring" in w:
                res.state, res.reason = "error", "SAT back end dropped a quantifier: " + w
                return res
        res.props = props
        unw = [p for p in props if p.status == "FAILURE" and ".unwind." in p.pid]
        if unw:
            res.state = "undecided"
            res.reason = "envelope/unwinding bound too small for the code: " + ", ".join(p.pid for p in unw[:6])
            return res
        if len(props) < g.min_obligations:
            res.state, res.reason = "error", "vacuity guard: only %d obligations generated (< %d)" % (len(props), g.min_obligations)
            return res
        if any(p.status == "FAILURE" for p in props):
            res.state = "failed"
        elif status != "success":
            res.state, res.reason = "undecided", "cbmc status %s without a failed property: %s" % (status, "; ".join(errors)[:400])
        elif any(p.status not in ("SUCCESS",) for p in props):
            bad = [p for p in props if p.status != "SUCCESS"]
            res.state, res.reason = "undecided", "properties without verdict: " + ", ".join(p.pid for p in bad[:5])
        if g.covers and res.state == "ok":
            self._covers(g, gb, us, res)
        return res

    def _covers(self, g, gb, us, res):
        cmd = self.cbmc_cmd(g, gb, us, ["--cover", "cover"])
        cmd = [c for c in cmd if c != "--unwinding-assertions"]
        rc, so, se, dt, to = _run(cmd, timeout=g.timeout, mem_gb=g.mem_gb)
        res.t_solve += dt
        if to:
            res.state, res.reason = "undecided", "cover run timed out"
            return
        props, status, errors, warns = _parse_cbmc_json(so)
        if props is None:
            res.state, res.reason = "undecided", "cover run unparsable"
            return
        cov = [p for p in props if p.status in ("COVERED", "UNCOVERED")]
        res.covers_total = len(cov)
        res.covers_hit = sum(1 for p in cov if p.status == "COVERED")
        miss = [p for p in cov if p.status == "UNCOVERED"]
        if miss:
            res.state = "error"
            res.reason = "vacuity guard: regime cover(s) unreachable: " + ", ".join("%s@%s:%s" % (p.desc, os.path.basename(p.file), p.line) for p in miss[:5])

    def _refine(self, g, gb, us, res) -> bool:
        """unwinding refinement: raise exactly the loops whose unwinding assertion fails"""
        cache = os.path.join(VERIF, "cache", "unwind", re.sub(r"[^A-Za-z0-9_.-]", "_", g.gid) + ".json")
        if os.path.isfile(cache):
            try:
                us.update(json.load(open(cache)))
            except Exception:
                pass
        quiet = ["--no-assertions", "--no-bounds-check", "--no-pointer-check", "--no-div-by-zero-check",
                 "--no-signed-overflow-check", "--no-undefined-shift-check", "--no-pointer-primitive-check", "--no-built-in-assertions"]
        t_end = time.time() + g.timeout
        for rnd in range(200):
            cmd = self.cbmc_cmd(g, gb, us, quiet)
            rc, so, se, dt, to = _run(cmd, timeout=max(10, t_end - time.time()), mem_gb=g.mem_gb)
            res.t_solve += dt
            res.refine_rounds = rnd + 1
            if to:
                res.state, res.reason = "undecided", "unwinding refinement timed out in round %d" % (rnd + 1)
                return False
            props, status, errors, warns = _parse_cbmc_json(so)
            if props is None:
                res.state, res.reason = "undecided", "refinement round unparsable: %s" % (se[-300:])
                return False
            fails = [p.pid for p in props if p.status == "FAILURE" and ".unwind." in p.pid]
            if not fails:
                break
            for pid in fails:
                key = pid.replace(".unwind.", ".")
                cur = us.get(key, g.unwind or 1)
                ladder = [b for b in ((2, 3, 4, 6, 9) if (g.unwind or 9) < 4 else ()) + (9, 18, 34, 66, 72, 130, 136, 200, 260, 520, 1040) if b > cur]
                us[key] = ladder[0] if ladder else cur * 2
                # dfcc renames the function under contract; goto-cc renames duplicated statics
                f, n = key.rsplit(".", 1)
                us["%s_wrapped_for_contract_checking.%s" % (f, n)] = us[key]
                if "$" not in f:
                    for l in range(1, 16):   # file-static functions of equal name in several TUs: f$link1, f$link2, ...
                        us["%s$link%d.%s" % (f, l, n)] = max(us.get("%s$link%d.%s" % (f, l, n), 0), us[key])
                if rnd > 180:
                    break
        else:
            res.state, res.reason = "undecided", "unwinding refinement did not converge"
            return False
        try:
            os.makedirs(os.path.dirname(cache), exist_ok=True)
            json.dump(us, open(cache, "w"), indent=0, sort_keys=True)
        except OSError:
            pass
        return True

    # ------------------------------------------------------------------ trace
    def trace_inputs(self, g: Group, res: GroupResult, pid: str):
        """re-run cbmc for one failed property with --trace; returns (inputs, raw_text)"""
        cmd = self.cbmc_cmd(g, res.gb, res.unwindset, ["--trace", "--property", pid])
        rc, so, se, dt, to = _run(cmd, timeout=min(g.timeout, 400), mem_gb=g.mem_gb)
        if to:
            return None, "trace run timed out"
        try:
            d = json.loads(so)
        except Exception:
            return None, "trace output unparsable"
        inputs: Dict[str, object] = {}
        txt = []
        for e in d:
            for r in e.get("result", []) if isinstance(e, dict) else []:
                if r.get("property") != pid or "trace" not in r:
                    continue
                txt.append("%s: %s [%s]" % (r["property"], r.get("description", ""), r.get("status")))
                for s in r["trace"]:
                    if s.get("stepType") == "failure":
                        sl = s.get("sourceLocation", {})
                        txt.append("failure at %s:%s (%s): %s" % (sl.get("file"), sl.get("line"), sl.get("function"), s.get("reason")))
                    if s.get("stepType") != "assignment":
                        continue
                    lhs = s.get("lhs", "")
                    fn = s.get("sourceLocation", {}).get("function", "")
                    base = lhs.split("[")[0]
                    if not base.startswith("in_") or fn != g.entry:
                        continue
                    v = s.get("value", {})
                    if "[" in lhs:
                        continue       # later element write; inputs are taken from the declaration
                    if base in inputs:
                        continue
                    if v.get("name") == "array":
                        inputs[base] = [_val(el.get("value", {})) for el in v.get("elements", [])]
                    else:
                        inputs[base] = _val(v)
        return inputs, "\n".join(txt)


def _val(v):
    b = v.get("binary")
    if b is not None:
        return int(b, 2)
    dta = v.get("data")
    try:
        return int(re.sub(r"[uUlL]+$", "", str(dta)), 0)
    except Exception:
        return 0


def run_groups(runner: Runner, groups: List[Group], progress=True) -> List[GroupResult]:
    """run groups on NCPU cores; heavier groups take several slots"""
    results: Dict[str, GroupResult] = {}
    cond = threading.Condition()
    free = [NCPU]
    lock = threading.Lock()
    done = [0]

    cap = int(os.environ.get("VERIF_TIMEOUT_CAP", "0") or 0)   # optional cap on the per-group solver budget of exploratory groups (smoke runs of the deeper tier)

    def work(g: Group):
        if cap and g.exploratory:
            g.timeout = min(g.timeout, cap)
        n = max(1, min(g.slots, NCPU))
        with cond:
            while free[0] < n:
                cond.wait()
            free[0] -= n
        try:
            try:
                r = runner.run(g)
            except Exception as e:   # noqa
                r = GroupResult(g, state="error", reason="driver exception: %r" % (e,))
        finally:
            with cond:
                free[0] += n
                cond.notify_all()
        with lock:
            results[g.gid] = r
            done[0] += 1
            if progress:
                nf = len(r.failures)
                print("  [%d/%d] %-60s %-9s %5.1fs%s" % (done[0], len(groups), g.gid[:60], r.state,
                                                        r.t_compile + r.t_instrument + r.t_solve,
                                                        (" fails=%d" % nf) if nf else (" " + r.reason[:100] if r.reason else "")), flush=True)
        return r

    # big ones first
    order = sorted(groups, key=lambda g: (-g.slots, -g.timeout))
    with cf.ThreadPoolExecutor(max_workers=NCPU) as ex:
        list(ex.map(work, order))
    return [results[g.gid] for g in groups]


def with_canaries(groups: List[Group]) -> List[Group]:
    """for each (function, harness mode) add one must-fail clone of its first group (-DVP_CANARY)"""
    import copy
    seen = set()
    out = list(groups)
    for g in groups:
        key = (g.function, g.harness, g.assert_mode)
        if key in seen or g.canary:
            continue
        seen.add(key)
        c = copy.deepcopy(g)
        c.gid = g.gid + ".CANARY"
        c.canary = True
        c.canary_expect = "canary"
        c.covers = False
        out.append(c)
    return out
