/* native_rt.c -- runtime for native replay of CBMC counterexamples (-DVP_NATIVE).
 * Replay file (env VP_REPLAY_FILE): one value per line: "<name> <index> <hex>" where
 * <hex> is the element value as an unsigned 64-bit number (sign-extended values are
 * truncated to the element size on load).  Missing elements load as 0.
 */
#include <stdint.h>
#include <stdio.h>
#include <stdlib.h>
#include <string.h>

typedef struct {
  char name[64];
  long idx;
  unsigned long long val;
} vp_ent_t;
static vp_ent_t *vp_tab;
static size_t vp_ntab;
static int vp_loaded;
int vp_failed;

static void vp_read_file(void) {
  vp_loaded      = 1;
  const char *fn = getenv("VP_REPLAY_FILE");
  if (!fn) return;
  FILE *f = fopen(fn, "r");
  if (!f) {
    fprintf(stderr, "REPLAY-ERROR cannot open %s\n", fn);
    exit(44);
  }
  size_t cap = 1024;
  vp_tab     = malloc(cap * sizeof(vp_ent_t));
  char nm[64];
  long idx;
  unsigned long long v;
  while (fscanf(f, "%63s %ld %llx", nm, &idx, &v) == 3) {
    if (vp_ntab == cap) {
      cap *= 2;
      vp_tab = realloc(vp_tab, cap * sizeof(vp_ent_t));
    }
    strcpy(vp_tab[vp_ntab].name, nm);
    vp_tab[vp_ntab].idx = idx;
    vp_tab[vp_ntab].val = v;
    vp_ntab++;
  }
  fclose(f);
}

void vp_load(const char *name, void *dst, size_t elsz, size_t n) {
  if (!vp_loaded) vp_read_file();
  memset(dst, 0, elsz * n);
  for (size_t t = 0; t < vp_ntab; ++t) {
    if (strcmp(vp_tab[t].name, name) == 0 && vp_tab[t].idx >= 0 && (size_t)vp_tab[t].idx < n) {
      memcpy((char *)dst + elsz * vp_tab[t].idx, &vp_tab[t].val, elsz > 8 ? 8 : elsz);
    }
  }
}

void vp_reject(const char *what, const char *file, int line) {
  printf("REPLAY-REJECT assumption not satisfied by the replayed inputs: %s (%s:%d)\n", what, file, line);
  fflush(stdout);
  exit(43);
}

void vp_fail(const char *clause, const char *file, int line) {
  printf("REPLAY-FAIL clause violated on the real code: %s (%s:%d)\n", clause, file, line);
  fflush(stdout);
  vp_failed = 1;
}

/* snapshot registry */
typedef struct {
  void *hdr;
  char *blk;
  size_t n;
  char *snap;
} vp_reg_t;
static vp_reg_t vp_regs[64];
static int vp_nregs;

void vp_register(void *hdr, void *blk, size_t nbytes) {
  vp_regs[vp_nregs].hdr  = hdr;
  vp_regs[vp_nregs].blk  = blk;
  vp_regs[vp_nregs].n    = nbytes;
  vp_regs[vp_nregs].snap = NULL;
  vp_nregs++;
}

void vp_snapshot_all(void) {
  for (int i = 0; i < vp_nregs; ++i) {
    free(vp_regs[i].snap);
    vp_regs[i].snap = malloc(vp_regs[i].n ? vp_regs[i].n : 1);
    memcpy(vp_regs[i].snap, vp_regs[i].blk, vp_regs[i].n);
  }
}

void *vp_old_ptr(const void *p) {
  for (int i = 0; i < vp_nregs; ++i) {
    const char *c = p;
    if (c >= vp_regs[i].blk && c < vp_regs[i].blk + vp_regs[i].n) {
      if (!vp_regs[i].snap) {
        fprintf(stderr, "REPLAY-ERROR VP_OLD before VP_SNAPSHOT\n");
        exit(44);
      }
      return vp_regs[i].snap + (c - vp_regs[i].blk);
    }
  }
  fprintf(stderr, "REPLAY-ERROR VP_OLD of an address outside every registered block\n");
  exit(44);
}

void harness(void);
int main(void) {
  harness();
  if (vp_failed) return 42;
  printf("REPLAY-PASS all evaluated clauses hold on the real code for these inputs\n");
  return 0;
}
