/* VP-ASSUMPTION: libm in layer S: sqrt/log2/round return an arbitrary non-negative value (bounded so that the
 * conversion to int is defined); they only feed tuning constants (default cutoff, block size), so every
 * cache-size configuration of the property's quantifier is covered at once. */
double sqrt(double x) {
  double r;
  __CPROVER_assume(r >= 0.0 && r <= 1048576.0);
  return r;
}
double log2(double x) {
  double r;
  __CPROVER_assume(r >= 0.0 && r <= 64.0);
  return r;
}
double round(double x) {
  double r;
  __CPROVER_assume(r >= 0.0 && r <= 64.0);
  return r;
}
