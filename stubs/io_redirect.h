/* force-included (-include) when io.c is compiled for C18: routes the two fscanf call sites of mzd_from_jcf to
 * fixed-arity stubs (CBMC cannot propagate constants through va_arg, which made the matrix dimensions read from the
 * header symbolic and the calloc/memset lengths intractable).  VP-ASSUMPTION: part of the assumed stdio contract. */
#ifndef VP_IO_REDIRECT_H
#define VP_IO_REDIRECT_H
#include <stdio.h>
int vp_fscanf4(FILE *f, const char *fmt, int *pm, int *pn, long *pp, long *pz);
int vp_fscanf1(FILE *f, const char *fmt, long *pj);
#define VP_FSCANF_PICK(f, fmt, a1, a2, a3, a4, NAME, ...) NAME
#define fscanf(...) VP_FSCANF_PICK(__VA_ARGS__, vp_fscanf4, vp_bad, vp_bad, vp_fscanf1, vp_bad)(__VA_ARGS__)
#endif
