/* VP-ASSUMPTION: assumed contract of stdio for io.c: fopen yields a stream or NULL; fscanf on the JCF reader
 * delivers an arbitrary token sequence chosen by the harness (header: up to 4 values, body: one long per call
 * until the sequence ends); fread delivers arbitrary bytes; time/localtime deliver an arbitrary broken-down time. */
#include <stdarg.h>
#include <stdio.h>
#include <time.h>
struct vp_stdio_model {
  int fopen_fails;
  int header_items;          /* return value of the header fscanf (0..4) */
  int hm, hn;
  long hp, hnz;
  int ntok;                  /* body tokens */
  long tok[8];
  int cursor, calls;
  int open_streams;
  int fread_short;
} vp_io;
static FILE vp_file_obj;

FILE *fopen(const char *fn, const char *mode) {
  vp_io.cursor = 0, vp_io.calls = 0;
  if (vp_io.fopen_fails) return NULL;
  vp_io.open_streams++;
  return &vp_file_obj;
}
int fclose(FILE *f) {
  vp_io.open_streams--;
  return 0;
}
size_t fread(void *ptr, size_t size, size_t n, FILE *f) {
  unsigned char *p = ptr;
  for (size_t k = 0; k < 16; ++k)
    if (k < size * n) {
      unsigned char b;
      p[k] = b;
    }
  return vp_io.fread_short ? 0 : n;
}
int vp_fscanf4(FILE *f, const char *fmt, int *pm, int *pn, long *pp, long *pz) { /* "%d %d %ld\n%ld\n\n" */
  vp_io.calls++;
  /* all four targets are always written (a real fscanf leaves unparsed ones untouched): io.c does not read them when
     fewer than 4 items were parsed, and unconditional concrete writes keep the matrix dimensions concrete for the verifier */
  *pm = vp_io.hm;
  *pn = vp_io.hn;
  *pp = vp_io.hp;
  *pz = vp_io.hnz;
  return vp_io.header_items;
}
int vp_fscanf1(FILE *f, const char *fmt, long *pj) { /* "%ld\n" */
  vp_io.calls++;
  if (vp_io.cursor < vp_io.ntok) {
    *pj = vp_io.tok[vp_io.cursor++];
    return 1;
  }
  return -1;
}
time_t time(time_t *t) {
  time_t r;
  if (t) *t = r;
  return r;
}
static struct tm vp_tm;
struct tm *localtime(const time_t *t) {
  struct tm x;
  __CPROVER_assume(x.tm_year >= 0 && x.tm_year <= 8099 && x.tm_mon >= 0 && x.tm_mon <= 11 && x.tm_mday >= 1 && x.tm_mday <= 31 && x.tm_hour >= 0 && x.tm_hour <= 23 &&
                   x.tm_min >= 0 && x.tm_min <= 59 && x.tm_sec >= 0 && x.tm_sec <= 60);
  vp_tm = x;
  return &vp_tm;
}
/* the only sprintf of io.c formats the PNG date text "%04d/%02d/%02d %02d:%02d:%02d" of a broken-down time whose fields are in
 * range (see localtime above): exactly 19 characters and the terminator */
int sprintf(char *s, const char *fmt, ...) {
  for (int k = 0; k < 19; ++k) {
    char ch;
    __CPROVER_assume(ch != 0);
    s[k] = ch;
  }
  s[19] = 0;
  return 19;
}
