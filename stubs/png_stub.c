/* VP-ASSUMPTION: assumed contract of libpng 1.6 for the calls io.c makes (the library itself is outside the proof):
 *  - the png_get_* accessors report one consistent IHDR (values chosen by the harness: arbitrary for "any file",
 *    or what png_set_IHDR recorded for the round trip);
 *  - png_read_row stores exactly rowbytes = ceil(width * bit_depth * channels / 8) bytes into the caller's buffer;
 *    png_write_row reads exactly that many bytes from it;
 *  - png_set_packswap reverses the bit order inside every byte, png_set_invert_mono complements, on the way to
 *    (write) resp. from (read) the stored row; everything else (compression, chunks, CRC, text) is the identity on row data;
 *  - errors are reported by return values in this model (no longjmp is taken). */
#include <png.h>
#include <stdlib.h>

#define VP_PNG_MAXROWS 4
#define VP_PNG_MAXBYTES 40
struct vp_png_model {
  unsigned width, height, bit_depth, channels, color_type, interlace, compression;
  int packswap, invert;
  int cursor;
  int create_fails;
  int sig_mismatch;
  unsigned char rows[VP_PNG_MAXROWS][VP_PNG_MAXBYTES];
} vp_png;
static jmp_buf vp_png_jmp;
static int vp_png_struct_obj, vp_png_info_obj;

static unsigned vp_png_rowbytes(void) { return (vp_png.width * vp_png.bit_depth * vp_png.channels + 7) / 8; }
static unsigned char vp_png_swapbits(unsigned char b) {
  b = (unsigned char)(((b & 0xF0) >> 4) | ((b & 0x0F) << 4));
  b = (unsigned char)(((b & 0xCC) >> 2) | ((b & 0x33) << 2));
  b = (unsigned char)(((b & 0xAA) >> 1) | ((b & 0x55) << 1));
  return b;
}

int png_sig_cmp(png_const_bytep sig, size_t start, size_t num_to_check) {
  return vp_png.sig_mismatch;
}
png_structp png_create_read_struct(png_const_charp v, png_voidp e, png_error_ptr ef, png_error_ptr wf) {
  vp_png.cursor = 0, vp_png.packswap = 0, vp_png.invert = 0;
  return vp_png.create_fails ? NULL : (png_structp)&vp_png_struct_obj;
}
png_structp png_create_write_struct(png_const_charp v, png_voidp e, png_error_ptr ef, png_error_ptr wf) {
  vp_png.cursor = 0, vp_png.packswap = 0, vp_png.invert = 0;
  return vp_png.create_fails ? NULL : (png_structp)&vp_png_struct_obj;
}
png_infop png_create_info_struct(png_const_structrp p) { return (png_infop)&vp_png_info_obj; }
void png_set_user_limits(png_structrp p, png_uint_32 w, png_uint_32 h) {}
void png_init_io(png_structrp p, png_FILE_p fp) {}
void png_set_sig_bytes(png_structrp p, int n) {}
void png_read_info(png_structrp p, png_inforp i) {}
png_uint_32 png_get_image_height(png_const_structrp p, png_const_inforp i) { return vp_png.height; }
png_uint_32 png_get_image_width(png_const_structrp p, png_const_inforp i) { return vp_png.width; }
png_byte png_get_bit_depth(png_const_structrp p, png_const_inforp i) { return (png_byte)vp_png.bit_depth; }
png_byte png_get_channels(png_const_structrp p, png_const_inforp i) { return (png_byte)vp_png.channels; }
png_byte png_get_color_type(png_const_structrp p, png_const_inforp i) { return (png_byte)vp_png.color_type; }
png_byte png_get_compression_type(png_const_structrp p, png_const_inforp i) { return (png_byte)vp_png.compression; }
png_byte png_get_interlace_type(png_const_structrp p, png_const_inforp i) { return (png_byte)vp_png.interlace; }
void png_set_packswap(png_structrp p) { vp_png.packswap = 1; }
void png_set_invert_mono(png_structrp p) { vp_png.invert = 1; }
void png_read_row(png_structrp p, png_bytep row, png_bytep display_row) {
  unsigned n = vp_png_rowbytes();
  __CPROVER_assert(vp_png.cursor < VP_PNG_MAXROWS && n <= VP_PNG_MAXBYTES, "harness envelope: PNG model large enough");
  /* the obligation on the caller: its row buffer holds rowbytes bytes (checked once; the model itself never writes out of bounds) */
  __CPROVER_assert(__CPROVER_w_ok(row, n), "png_read_row: the caller's row buffer holds rowbytes = ceil(width*depth*channels/8) bytes");
  __CPROVER_assume(__CPROVER_w_ok(row, n));
  for (unsigned k = 0; k < VP_PNG_MAXBYTES; ++k)
    if (k < n) {
      unsigned char b = vp_png.rows[vp_png.cursor][k];
      if (vp_png.invert) b = (unsigned char)~b;
      if (vp_png.packswap) b = vp_png_swapbits(b);
      row[k] = b; /* libpng writes rowbytes bytes into the caller's buffer */
    }
  vp_png.cursor++;
}
void png_read_end(png_structrp p, png_inforp i) {}
void png_destroy_read_struct(png_structpp a, png_infopp b, png_infopp c) {}
void png_destroy_write_struct(png_structpp a, png_infopp b) {}
jmp_buf *png_set_longjmp_fn(png_structrp p, png_longjmp_ptr f, size_t s) { return &vp_png_jmp; }
void png_set_compression_level(png_structrp p, int level) {}
void png_set_IHDR(png_const_structrp p, png_inforp i, png_uint_32 width, png_uint_32 height, int bit_depth, int color_type, int interlace, int comp, int filter) {
  vp_png.width = width, vp_png.height = height, vp_png.bit_depth = (unsigned)bit_depth, vp_png.color_type = (unsigned)color_type, vp_png.interlace = (unsigned)interlace;
  vp_png.compression = (unsigned)comp, vp_png.channels = 1;
}
void png_set_text(png_const_structrp p, png_inforp i, png_const_textp t, int n) {}
void png_write_info(png_structrp p, png_const_inforp i) {}
void png_write_row(png_structrp p, png_const_bytep row) {
  unsigned n = vp_png_rowbytes();
  __CPROVER_assert(vp_png.cursor < VP_PNG_MAXROWS && n <= VP_PNG_MAXBYTES, "harness envelope: PNG model large enough");
  __CPROVER_assert(__CPROVER_r_ok(row, n), "png_write_row: the caller's row buffer holds rowbytes bytes");
  __CPROVER_assume(__CPROVER_r_ok(row, n));
  for (unsigned k = 0; k < VP_PNG_MAXBYTES; ++k)
    if (k < n) {
      unsigned char b = row[k]; /* libpng reads rowbytes bytes from the caller's buffer */
      if (vp_png.packswap) b = vp_png_swapbits(b);
      if (vp_png.invert) b = (unsigned char)~b;
      vp_png.rows[vp_png.cursor][k] = b;
    }
  vp_png.cursor++;
}
void png_write_end(png_structrp p, png_inforp i) {}
