#include <m4ri/m4ri.h>
int nondet_int(void); long nondet_long(void); unsigned char nondet_uchar(void);
static void any_hdr(mzd_t *M){
  M->nrows = nondet_int(); M->ncols = nondet_int();
  __CPROVER_assume(M->nrows >= 0 && M->ncols >= 0 && M->nrows <= (1<<20) && M->ncols <= (1<<20));
  M->width = (M->ncols + 63) / 64; M->rowstride = M->width + (M->width & 1);
  M->high_bitmask = __M4RI_LEFT_BITMASK(M->ncols % 64); M->flags = nondet_uchar();
  M->data = (word *)0;   /* dangling: any access trips the pointer check */
}
void h_add(void){
  mzd_t a,b,c; any_hdr(&a); any_hdr(&b); any_hdr(&c);
  __CPROVER_assume(a.nrows != b.nrows || a.ncols != b.ncols || c.nrows != a.nrows || c.ncols != a.ncols);
  mzd_add(&c,&a,&b);
  __CPROVER_assert(0, "mzd_add must not return on a dimension mismatch");
}
void h_m4rm(void){
  mzd_t a,b,c; any_hdr(&a); any_hdr(&b); any_hdr(&c);
  __CPROVER_assume(a.ncols != b.nrows || c.nrows != a.nrows || c.ncols != b.ncols);
  mzd_mul_m4rm(&c,&a,&b,nondet_int());
  __CPROVER_assert(0, "mzd_mul_m4rm must not return on a dimension mismatch");
}
void h_addmul_m4rm(void){
  mzd_t a,b,c; any_hdr(&a); any_hdr(&b); any_hdr(&c);
  __CPROVER_assume(a.ncols != b.nrows || c.nrows != a.nrows || c.ncols != b.ncols);
  mzd_addmul_m4rm(&c,&a,&b,nondet_int());
  __CPROVER_assert(0, "mzd_addmul_m4rm must not return on a dimension mismatch");
}
void h_copy(void){
  mzd_t n,p; any_hdr(&n); any_hdr(&p);
  __CPROVER_assume(n.nrows < p.nrows || n.ncols < p.ncols);
  mzd_copy(&n,&p);
  __CPROVER_assert(0, "mzd_copy must not return when the target is too small");
}
