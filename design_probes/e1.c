#include <m4ri/m4ri.h>
#include <stdlib.h>
int nondet_int(void); word nondet_word(void);
void m4ri_die(const char *e, ...) { abort(); }
word m4ri_random_word(void) { return nondet_word(); }
double log2(double x) { return 14.5; }
double round(double x) { return (double)(long)(x + 0.5); }
double sqrt(double x) { return 15049.0; }
static void build_codes(int kmax){
  m4ri_codebook = (code **)calloc(__M4RI_MAXKAY + 1, sizeof(code *));
  for (int k = 1; k <= kmax; ++k) {
    m4ri_codebook[k] = (code *)calloc(1, sizeof(code));
    m4ri_codebook[k]->ord = (int *)calloc(__M4RI_TWOPOW(k), sizeof(int));
    m4ri_codebook[k]->inc = (int *)calloc(__M4RI_TWOPOW(k), sizeof(int));
    m4ri_build_code(m4ri_codebook[k]->ord, m4ri_codebook[k]->inc, k);
  }
}
#define BIT(M,i,j) ((int)((mzd_row(M,i)[(j)/64] >> ((j)%64)) & 1))
/* spec: textbook RREF on an int array */
static int spec_rref(int R[M_][N_]){
  int r = 0;
  for (int c = 0; c < N_ && r < M_; c++) {
    int p = -1;
    for (int i = r; i < M_; i++) if (p < 0 && R[i][c]) p = i;
    if (p < 0) continue;
    for (int j = 0; j < N_; j++) { int t = R[r][j]; R[r][j] = R[p][j]; R[p][j] = t; }
    for (int i = 0; i < M_; i++) if (i != r && R[i][c]) for (int j = 0; j < N_; j++) R[i][j] ^= R[r][j];
    r++;
  }
  return r;
}
void harness(void){
  build_codes(KMAX);
  mzd_t *A = mzd_init(M_, N_);
  int R[M_][N_];
  for (int i=0;i<M_;i++) for (wi_t j=0;j<A->width;j++) { word w = nondet_word(); if (j==A->width-1) w &= A->high_bitmask; mzd_row(A,i)[j] = w; }
  for (int i=0;i<M_;i++) for (int j=0;j<N_;j++) R[i][j] = BIT(A,i,j);
  int rs = spec_rref(R);
  rci_t r = FUN;
  __CPROVER_assert(r == rs, "rank");
  int gi = nondet_int(), gj = nondet_int();
  __CPROVER_assume(0<=gi && gi<M_ && 0<=gj && gj<N_);
  __CPROVER_assert(BIT(A,gi,gj) == R[gi][gj], "RREF cell");
}
