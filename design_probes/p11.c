#include <stddef.h>
#include <stdint.h>
typedef uint64_t word;
int64_t vg_w; int64_t vg_og;
#ifdef STRUCT
typedef struct { int nrows, ncols; int64_t width, rowstride; uint8_t flags; uint8_t padding[23]; word hb; word *data; } mz;
#define DATA M->data
#define DECL mz *M
#define FRESH (__CPROVER_is_fresh(M, sizeof(mz)) && __CPROVER_is_fresh(M->data, (size_t)total * sizeof(word)))
#else
#define DATA data
#define DECL word *data
#define FRESH __CPROVER_is_fresh(data, (size_t)total * sizeof(word))
#endif
#define ATO(o,w) DATA[(o) + (w)]
void rswap(DECL, int64_t total, int64_t width, int64_t rs, int64_t oa, int64_t ob)
__CPROVER_requires(total >= 1 && total <= BOUND && width >= 1 && rs >= width && rs <= total && 0 <= oa && oa <= total && ob <= total && vg_og <= total && 0 <= oa && oa + rs <= total && 0 <= ob && ob + rs <= total && 0 <= vg_og && vg_og + rs <= total)
__CPROVER_requires(oa + rs <= ob || ob + rs <= oa)
__CPROVER_requires((vg_og + rs <= ob || ob + rs <= vg_og) && (vg_og + rs <= oa || oa + rs <= vg_og))
__CPROVER_requires(FRESH)
__CPROVER_requires(0 <= vg_w && vg_w < rs)
__CPROVER_assigns(__CPROVER_object_whole(DATA))
__CPROVER_ensures((vg_w < width - 1) ==> (ATO(oa,vg_w) == __CPROVER_old(ATO(ob,vg_w)) && ATO(ob,vg_w) == __CPROVER_old(ATO(oa,vg_w))))
__CPROVER_ensures((vg_w >= width - 1) ==> (ATO(oa,vg_w) == __CPROVER_old(ATO(oa,vg_w)) && ATO(ob,vg_w) == __CPROVER_old(ATO(ob,vg_w))))
__CPROVER_ensures(ATO(vg_og,vg_w) == __CPROVER_old(ATO(vg_og,vg_w)))
{
  int64_t w1 = width - 1;
  word *a = DATA + oa, *b = DATA + ob;
  word tmp;
  for (int64_t i = 0; i < w1; ++i)
  __CPROVER_assigns(i, tmp, __CPROVER_object_whole(DATA))
  __CPROVER_loop_invariant(0 <= i && i <= w1)
  __CPROVER_loop_invariant((vg_w < i) ==> (ATO(oa,vg_w) == __CPROVER_loop_entry(ATO(ob,vg_w)) && ATO(ob,vg_w) == __CPROVER_loop_entry(ATO(oa,vg_w))))
  __CPROVER_loop_invariant((vg_w >= i) ==> (ATO(oa,vg_w) == __CPROVER_loop_entry(ATO(oa,vg_w)) && ATO(ob,vg_w) == __CPROVER_loop_entry(ATO(ob,vg_w))))
  __CPROVER_loop_invariant(ATO(vg_og,vg_w) == __CPROVER_loop_entry(ATO(vg_og,vg_w)))
  __CPROVER_decreases(w1 - i)
  {
    tmp  = a[i];
    a[i] = b[i];
    b[i] = tmp;
  }
}
void *nondet_p(void); int nondet_int(void); int64_t nondet_i64(void);
void harness(void){ vg_og = nondet_i64(); vg_w = nondet_i64(); rswap(nondet_p(), nondet_i64(), nondet_i64(), nondet_i64(), nondet_i64(), nondet_i64()); }
