#include <m4ri/m4ri.h>
int nondet_int(void); word nondet_word(void);
#define BIT(M,i,j) ((int)((mzd_row(M,i)[(j)/64] >> ((j)%64)) & 1))
void harness(void){
  mzd_t *A = mzd_init(M_, N_);
  for (int i=0;i<M_;i++) for (wi_t j=0;j<A->width;j++) { word w = nondet_word(); if (j==A->width-1) w &= A->high_bitmask; mzd_row(A,i)[j] = w; }
  mzd_t *T = mzd_transpose(NULL, A);
  __CPROVER_assert(T->nrows == N_ && T->ncols == M_, "dims");
  int gi = nondet_int(), gj = nondet_int();
  __CPROVER_assume(0<=gi && gi<M_ && 0<=gj && gj<N_);
  __CPROVER_assert(BIT(T,gj,gi) == BIT(A,gi,gj), "T[j][i] == A[i][j]");
  int gr = nondet_int(); __CPROVER_assume(0<=gr && gr<N_);
  __CPROVER_assert((mzd_row(T,gr)[T->width-1] & ~T->high_bitmask) == 0, "padding of owned result is zero");
}
