#include "strassen_lc.c" /* = /repo/m4ri/strassen.c with the loop contract of README.md inserted after `while (width > cutoff)` (first occurrence) */
/* ---------------- shape contracts (data opaque) ---------------- */
int vg_live;  /* ghost: number of live mzd_t headers created inside the call */
#define SHP(M) (__CPROVER_r_ok((M), sizeof(mzd_t)) && (M)->nrows >= 0 && (M)->ncols >= 0 && (M)->nrows <= (1<<30) && (M)->ncols <= (1<<30))
#define NE(M) ((M)->nrows >= 1 && (M)->ncols >= 1)
#define FRESH_HDR(R) (__CPROVER_is_fresh((R), sizeof(mzd_t)))

mzd_t *mzd_init(rci_t r, rci_t c)
__CPROVER_requires(r >= 0 && c >= 0)
__CPROVER_assigns(vg_live)
__CPROVER_ensures(FRESH_HDR(__CPROVER_return_value) && __CPROVER_return_value->nrows == r && __CPROVER_return_value->ncols == c && (__CPROVER_return_value->flags & 0x4) == 0)
__CPROVER_ensures(vg_live == __CPROVER_old(vg_live) + 1)
;
mzd_t *mzd_init_window(mzd_t *M, rci_t lowr, rci_t lowc, rci_t highr, rci_t highc)
__CPROVER_requires(SHP(M) && 0 <= lowr && lowr <= highr && 0 <= lowc && lowc <= highc && lowc % 64 == 0 && highc <= M->ncols && lowr <= M->nrows)
__CPROVER_assigns(vg_live)
__CPROVER_ensures(FRESH_HDR(__CPROVER_return_value) && __CPROVER_return_value->nrows == MIN(highr - lowr, M->nrows - lowr) && __CPROVER_return_value->ncols == highc - lowc && (__CPROVER_return_value->flags & 0x4) != 0)
__CPROVER_ensures(vg_live == __CPROVER_old(vg_live) + 1)
;
void mzd_free(mzd_t *A)
__CPROVER_requires(SHP(A))
__CPROVER_assigns(vg_live)
__CPROVER_ensures(vg_live == __CPROVER_old(vg_live) - 1)
;
mzd_t *mzd_copy(mzd_t *N, mzd_t const *P)
__CPROVER_requires(SHP(P) && (N == NULL || (SHP(N) && N->nrows >= P->nrows && N->ncols >= P->ncols)))
__CPROVER_assigns(vg_live)
__CPROVER_ensures(N != NULL ==> (__CPROVER_return_value == N && vg_live == __CPROVER_old(vg_live)))
__CPROVER_ensures(N == NULL ==> (FRESH_HDR(__CPROVER_return_value) && __CPROVER_return_value->nrows == P->nrows && __CPROVER_return_value->ncols == P->ncols && (__CPROVER_return_value->flags & 0x4) == 0 && vg_live == __CPROVER_old(vg_live) + 1))
;
mzd_t *_mzd_mul_m4rm(mzd_t *C, mzd_t const *A, mzd_t const *B, int k, int clear)
__CPROVER_requires(SHP(C) && SHP(A) && SHP(B) && NE(A) && NE(B) && NE(C))
__CPROVER_requires(A->ncols == B->nrows && C->nrows == A->nrows && C->ncols == B->ncols)
__CPROVER_assigns()
__CPROVER_ensures(__CPROVER_return_value == C)
;
mzd_t *mzd_addmul_m4rm(mzd_t *C, mzd_t const *A, mzd_t const *B, int k)
__CPROVER_requires(SHP(C) && SHP(A) && SHP(B) && NE(A) && NE(B) && NE(C))
__CPROVER_requires(A->ncols == B->nrows && C->nrows == A->nrows && C->ncols == B->ncols)
__CPROVER_assigns()
__CPROVER_ensures(__CPROVER_return_value == C)
;
mzd_t *_mzd_add(mzd_t *C, mzd_t const *A, mzd_t const *B)
__CPROVER_requires(SHP(C) && SHP(A) && SHP(B) && A->ncols == B->ncols && C->ncols == A->ncols && A->nrows == B->nrows && C->nrows == A->nrows)
__CPROVER_assigns()
__CPROVER_ensures(__CPROVER_return_value == C)
;
/* the contract under proof */
mzd_t *_mzd_mul_even(mzd_t *C, mzd_t const *A, mzd_t const *B, int cutoff)
__CPROVER_requires(SHP(C) && SHP(A) && SHP(B) && NE(A) && NE(B) && NE(C))
__CPROVER_requires(A->ncols == B->nrows && C->nrows == A->nrows && C->ncols == B->ncols)
__CPROVER_requires(cutoff >= 64 && cutoff % 64 == 0 && cutoff <= (1 << 28) EXTRA_REQ)
__CPROVER_assigns(vg_live)
__CPROVER_ensures(__CPROVER_return_value == C && vg_live == __CPROVER_old(vg_live))
;
mzd_t *mzd_mul(mzd_t *C, mzd_t const *A, mzd_t const *B, int cutoff)
__CPROVER_requires(SHP(A) && SHP(B) && NE(A) && NE(B) && A->ncols == B->nrows && cutoff >= 0)
__CPROVER_requires(C == NULL || (SHP(C) && C->nrows == A->nrows && C->ncols == B->ncols))
__CPROVER_assigns(vg_live)
__CPROVER_ensures(C != NULL ==> (__CPROVER_return_value == C && vg_live == __CPROVER_old(vg_live)))
__CPROVER_ensures(C == NULL ==> (FRESH_HDR(__CPROVER_return_value) && __CPROVER_return_value->nrows == A->nrows && __CPROVER_return_value->ncols == B->ncols && (__CPROVER_return_value->flags & 0x4) == 0 && vg_live == __CPROVER_old(vg_live) + 1))
;
mzd_t *nondet_mp(void); int nondet_int(void);
void harness(void){
  mzd_t c, a, b;   /* nondet headers on the stack; C, A, B distinct objects */
  vg_live = nondet_int(); __CPROVER_assume(vg_live >= 0 && vg_live < 1000);
  _mzd_mul_even(&c, &a, &b, nondet_int());
}
