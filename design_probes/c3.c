#include <m4ri/m4ri.h>
#include <stdlib.h>
int nondet_int(void); word nondet_word(void);
void m4ri_die(const char *e, ...) { abort(); }
word m4ri_random_word(void) { return nondet_word(); }
double log2(double x) { return 14.5; }          /* probe-only stub; design: generated table of host values */
double round(double x) { return (double)(long)(x + 0.5); }
double sqrt(double x) { return 15049.0; }
static void build_codes(int kmax){
  m4ri_codebook = (code **)calloc(__M4RI_MAXKAY + 1, sizeof(code *));
  for (int k = 1; k <= kmax; ++k) {
    m4ri_codebook[k] = (code *)calloc(1, sizeof(code));
    m4ri_codebook[k]->ord = (int *)calloc(__M4RI_TWOPOW(k), sizeof(int));
    m4ri_codebook[k]->inc = (int *)calloc(__M4RI_TWOPOW(k), sizeof(int));
    m4ri_build_code(m4ri_codebook[k]->ord, m4ri_codebook[k]->inc, k);
  }
}
#define BIT(M,i,j) ((int)((mzd_row(M,i)[(j)/64] >> ((j)%64)) & 1))
void harness(void){
  build_codes(KMAX);
  mzd_t *A = mzd_init(M_, N_);
  int A0[M_][N_];
  for (int i=0;i<M_;i++) for (wi_t j=0;j<A->width;j++) { word w = nondet_word(); if (j==A->width-1) w &= A->high_bitmask; mzd_row(A,i)[j] = w; }
  for (int i=0;i<M_;i++) for (int j=0;j<N_;j++) A0[i][j] = BIT(A,i,j);
  mzp_t *P = mzp_init(M_), *Q = mzp_init(N_);
  for (int i=0;i<M_;i++) P->values[i] = nondet_int();   /* junk on entry */
  for (int j=0;j<N_;j++) Q->values[j] = nondet_int();
  rci_t r = mzd_pluq(A, P, Q, 0);
  __CPROVER_assert(0 <= r && r <= M_ && r <= N_, "rank range");
  for (int i=0;i<M_;i++) __CPROVER_assert(i <= P->values[i] && P->values[i] < M_, "P lapack range");
  for (int j=0;j<N_;j++) __CPROVER_assert(j <= Q->values[j] && Q->values[j] < N_, "Q lapack range");
  /* reconstruct P L U Q */
  int LU[M_][N_];
  for (int i=0;i<M_;i++) for (int j=0;j<N_;j++) {
    int s = 0;
    for (int t=0;t<M_ && t<N_;t++) if (t < r) {
      int l = (t < i) ? BIT(A,i,t) : (t == i);
      int u = (j > t) ? BIT(A,t,j) : (j == t);
      s ^= l & u;
    }
    LU[i][j] = s;
  }
  for (int i=M_-1;i>=0;i--) { int p = P->values[i]; for (int j=0;j<N_;j++){ int t=LU[i][j]; LU[i][j]=LU[p][j]; LU[p][j]=t; } }
  for (int j=N_-1;j>=0;j--) { int q = Q->values[j]; for (int i=0;i<M_;i++){ int t=LU[i][j]; LU[i][j]=LU[i][q]; LU[i][q]=t; } }
  int gi = nondet_int(), gj = nondet_int();
  __CPROVER_assume(0<=gi && gi<M_ && 0<=gj && gj<N_);
  __CPROVER_assert(LU[gi][gj] == A0[gi][gj], "P*L*U*Q == A0");
}
