#include <m4ri/m4ri_config.h>
#include <m4ri/misc.h>
#define __M4RI_DD_RAWROW(a,b)
#include <m4ri/xor.h>
int nondet_int(void); int64_t nondet_i64(void); word nondet_word(void);
#ifndef W
#define W 12
#endif
void harness(void){
  static word cbuf[W+4] __attribute__((aligned(16)));
  static word tbuf[W+4] __attribute__((aligned(16)));
  static word c0[W+4];
  int phase = nondet_int(); __CPROVER_assume(phase==0 || phase==1);
  wi_t wide = nondet_i64(); __CPROVER_assume(0 <= wide && wide <= W);
  for (int i=0;i<W+4;i++){ cbuf[i]=nondet_word(); tbuf[i]=nondet_word(); c0[i]=cbuf[i]; }
  _mzd_combine(cbuf+2+phase, tbuf+2+phase, wide);
  int g = nondet_int(); __CPROVER_assume(0<=g && g<W+4);
  if (g >= 2+phase && g < 2 + phase + wide) __CPROVER_assert(cbuf[g] == (c0[g]^tbuf[g]), "combined");
  else __CPROVER_assert(cbuf[g] == c0[g], "frame");
}
