#include <m4ri/m4ri.h>
int nondet_int(void); word nondet_word(void);
#define BIT(M,i,j) ((int)((mzd_row(M,i)[(j)/64] >> ((j)%64)) & 1))
void harness(void){
  mzd_t *A = mzd_init(M_, N_);
  int A0[M_][N_];
  for (int i=0;i<M_;i++) for (wi_t j=0;j<A->width;j++) { word w = nondet_word(); if (j==A->width-1) w &= A->high_bitmask; mzd_row(A,i)[j] = w; }
  for (int i=0;i<M_;i++) for (int j=0;j<N_;j++) A0[i][j] = BIT(A,i,j);
  mzp_t *P = mzp_init(N_);
  for (int j=0;j<N_;j++) { int v = nondet_int(); __CPROVER_assume(j <= v && v < N_); P->values[j] = v; }
  /* spec on an index: which original column ends at ghost column gj */
  int gi = nondet_int(), gj = nondet_int();
  __CPROVER_assume(0<=gi && gi<M_ && 0<=gj && gj<N_);
  int src = gj;
#ifdef TRANS   /* apply_p_right_trans: column swaps for ascending i; the column now at gj came from: run swaps backwards on the index */
  for (int i = N_-1; i >= 0; i--) { int p = P->values[i]; if (src == i) src = p; else if (src == p) src = i; }
  mzd_apply_p_right_trans(A, P);
#else          /* apply_p_right: swaps for descending i */
  for (int i = 0; i < N_; i++) { int p = P->values[i]; if (src == i) src = p; else if (src == p) src = i; }
  mzd_apply_p_right(A, P);
#endif
  __CPROVER_assert(BIT(A,gi,gj) == A0[gi][src], "column permutation = LAPACK swap sequence");
}
