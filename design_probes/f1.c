#include <m4ri/m4ri.h>
#include <m4ri/djb.h>
int nondet_int(void);
void h_init(void){
  rci_t r = nondet_int(), c = nondet_int();
  __CPROVER_assume(0 <= r && r <= 3 && 0 <= c && c <= 200);
  mzd_t *A = mzd_init(r, c);
  __CPROVER_assert(A != NULL, "header");
  if (r && c) { __CPROVER_assert(A->data != NULL, "data"); A->data[0] = 1; }
}
void h_djb(void){
  djb_t *z = djb_init(4, 4);
  for (int i = 0; i < M4RI_DJB_BASE_SIZE + 1; i++) djb_push_back(z, 0, 0, source_target);
}
