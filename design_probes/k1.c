/* layer K probe: enforce a contract on the real mzd_row_add_offset for one concrete shape, symbolic contents, view in parent */
#include <stdlib.h>
#include <m4ri/mzd.h>
int vg_i; int vg_w;   /* ghost: row and word of the PARENT allocation */
#define PW (RS)       /* parent rowstride in words */
static inline void mzd_row_add_offset(mzd_t *M, rci_t dstrow, rci_t srcrow, rci_t coloffset)
__CPROVER_requires(M->nrows == NR && M->ncols == NC && M->width == (NC+63)/64 && M->rowstride == RS)
__CPROVER_requires(M->high_bitmask == __M4RI_LEFT_BITMASK(NC % 64))
__CPROVER_requires(0 <= dstrow && dstrow < NR && 0 <= srcrow && srcrow < NR && 0 <= coloffset && coloffset < NC && dstrow != srcrow)
__CPROVER_requires(0 <= vg_i && vg_i < NR && 0 <= vg_w && vg_w < RS - WOFF)
__CPROVER_assigns(__CPROVER_object_whole(M->data))
/* word-level spec: word w of dst row = old ^ (src & colmask(w)) where colmask selects columns >= coloffset and < ncols */
#define CMASK(w) ( ((w) < coloffset/64 || (w) >= (NC+63)/64) ? (word)0 : \
                   ( ((w) == coloffset/64 ? (m4ri_ffff << (coloffset%64)) : m4ri_ffff) & ((w) == (NC+63)/64 - 1 ? __M4RI_LEFT_BITMASK(NC%64) : m4ri_ffff) ) )
__CPROVER_ensures(vg_i == dstrow ==> M->data[vg_i*RS + vg_w] == (__CPROVER_old(M->data[vg_i*RS + vg_w]) ^ (__CPROVER_old(M->data[srcrow*RS + vg_w]) & CMASK(vg_w))))
__CPROVER_ensures(vg_i != dstrow ==> M->data[vg_i*RS + vg_w] == __CPROVER_old(M->data[vg_i*RS + vg_w]))
;
int nondet_int(void); word nondet_word(void);
void harness(void){
  word parent[2 + NR*RS] __attribute__((aligned(16)));

  mzd_t MM; mzd_t *M=&MM;
  M->nrows=NR; M->ncols=NC; M->width=(NC+63)/64; M->rowstride=RS; M->high_bitmask=__M4RI_LEFT_BITMASK(NC%64);
  M->flags = mzd_flag_windowed | ((NC%64)?mzd_flag_nonzero_excess:0);
  M->data = parent + 2 + WOFF;
  vg_i = nondet_int(); vg_w = nondet_int();
  mzd_row_add_offset(M, nondet_int(), nondet_int(), nondet_int());
}
