#include <m4ri/m4ri.h>
#include <stdlib.h>
int nondet_int(void); word nondet_word(void);
static void build_codes(int kmax){
  m4ri_codebook = (code **)calloc(__M4RI_MAXKAY + 1, sizeof(code *));
  for (int k = 1; k <= kmax; ++k) {
    m4ri_codebook[k] = (code *)calloc(1, sizeof(code));
    m4ri_codebook[k]->ord = (int *)calloc(__M4RI_TWOPOW(k), sizeof(int));
    m4ri_codebook[k]->inc = (int *)calloc(__M4RI_TWOPOW(k), sizeof(int));
    m4ri_build_code(m4ri_codebook[k]->ord, m4ri_codebook[k]->inc, k);
  }
}
void harness(void){
  build_codes(KMAX);
  mzd_t *A = mzd_init(M_, L_), *B = mzd_init(L_, N_);
  for (int i=0;i<M_;i++) for (wi_t j=0;j<A->width;j++) { word w = nondet_word(); if (j==A->width-1) w &= A->high_bitmask; mzd_row(A,i)[j] = w; }
  for (int i=0;i<L_;i++) for (wi_t j=0;j<B->width;j++) { word w = nondet_word(); if (j==B->width-1) w &= B->high_bitmask; mzd_row(B,i)[j] = w; }
  mzd_t *C = FUN;
  int gi = nondet_int(), gj = nondet_int();
  __CPROVER_assume(0<=gi && gi<M_ && 0<=gj && gj<N_);
  int s = 0;
  for (int k=0;k<L_;k++) s ^= mzd_read_bit(A,gi,k) & mzd_read_bit(B,k,gj);
  __CPROVER_assert(mzd_read_bit(C,gi,gj) == s, "C[gi][gj] == sum_k A[gi][k]B[k][gj]");
}
