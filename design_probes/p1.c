#include <m4ri/misc.h>
#include <m4ri/parity.h>
word nondet_word(void);
int nondet_int(void);
void h_swap(void){
  word v = nondet_word();
  word r = m4ri_swap_bits(v);
  int i = nondet_int();
  __CPROVER_assume(0<=i && i<64);
  __CPROVER_assert(((r>>i)&1) == ((v>>(63-i))&1), "swap_bits reverses");
}
void h_parity(void){
  word buf[64];
  int i = nondet_int();
  __CPROVER_assume(0<=i && i<64);
  word r = m4ri_parity64(buf);
  word x = buf[i];
  x ^= x>>32; x ^= x>>16; x^= x>>8; x^=x>>4; x^=x>>2; x^=x>>1;
  __CPROVER_assert(((r>>i)&1) == (x&1), "parity64 bit i is parity of buf[i]");
}
void h_masks(void){
  int n = nondet_int(); int off = nondet_int();
  __CPROVER_assume(0<=n && n<=64);
  word l = __M4RI_LEFT_BITMASK(n);
  int i = nondet_int(); __CPROVER_assume(0<=i && i<64);
  int nn = (n==0)?64:n;
  __CPROVER_assert(((l>>i)&1) == (i<nn), "left bitmask");
  int m = nondet_int(); __CPROVER_assume(0<m && m<=64);
  word r = __M4RI_RIGHT_BITMASK(m);
  __CPROVER_assert(((r>>i)&1) == (i>=64-m), "right bitmask");
  __CPROVER_assume(0<=off && off<64 && n>0 && n<=64-off);
  word mm = __M4RI_MIDDLE_BITMASK(n,off);
  __CPROVER_assert(((mm>>i)&1) == (i>=off && i<off+n), "middle bitmask");
}
void h_lsb(void){
  word a=nondet_word(), b=nondet_word();
  int r = m4ri_lesser_LSB(a,b);
  int ia=64, ib=64;
  for(int k=63;k>=0;k--){ if((a>>k)&1) ia=k; if((b>>k)&1) ib=k; }
  __CPROVER_assert((r!=0) == (ia<ib), "lesser_LSB");
}
