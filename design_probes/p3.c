#include <stddef.h>
#include <stdint.h>
typedef uint64_t word;
extern int64_t vg_w;
int64_t vg_w;
void swap_words(word *a, word *b, int64_t width)
__CPROVER_requires(width >= 0 && width <= BOUND)
__CPROVER_requires(__CPROVER_is_fresh(a, (width+1) * sizeof(word)))
__CPROVER_requires(__CPROVER_is_fresh(b, (width+1) * sizeof(word)))
__CPROVER_assigns(__CPROVER_object_whole(a), __CPROVER_object_whole(b))
__CPROVER_ensures((0 <= vg_w && vg_w < width) ==> (a[vg_w] == __CPROVER_old(b[vg_w]) && b[vg_w] == __CPROVER_old(a[vg_w])))
{
  word tmp;
  for (int64_t i = 0; i < width; ++i)
  __CPROVER_assigns(i, tmp, __CPROVER_object_whole(a), __CPROVER_object_whole(b))
  __CPROVER_loop_invariant(0 <= i && i <= width)
  __CPROVER_loop_invariant((0 <= vg_w && vg_w < width) ==> (
     (vg_w < i  ==> (a[vg_w] == __CPROVER_loop_entry(b[vg_w]) && b[vg_w] == __CPROVER_loop_entry(a[vg_w]))) &&
     (vg_w >= i ==> (a[vg_w] == __CPROVER_loop_entry(a[vg_w]) && b[vg_w] == __CPROVER_loop_entry(b[vg_w])))))
  __CPROVER_decreases(width - i)
  {
    tmp  = a[i];
    a[i] = b[i];
    b[i] = tmp;
  }
}
word *nondet_p(void); int64_t nondet_i64(void);
void harness(void){ swap_words(nondet_p(), nondet_p(), nondet_i64()); }
