#include <m4ri/m4ri.h>
#include <stdio.h>
#include <sys/wait.h>
#include <unistd.h>
int main(){
  /* F7: row_clear_offset */
  mzd_t *A = mzd_init(1, 128);
  for (int j=0;j<128;j++) mzd_write_bit(A,0,j,1);
  mzd_row_clear_offset(A, 0, 10);
  int lo=0, hi=0; for (int j=0;j<10;j++) lo+=mzd_read_bit(A,0,j); for(int j=10;j<128;j++) hi+=mzd_read_bit(A,0,j);
  printf("row_clear_offset(col 10): kept below=%d (expect 10) kept from col10 on=%d (expect 0)\n", lo, hi);
  /* F6: first_zero_row on 1-word window with junk excess */
  mzd_t *P = mzd_init(4, 64); mzd_write_bit(P, 3, 40, 1);
  mzd_t *W = mzd_init_window(P, 0, 0, 4, 10);
  printf("first_zero_row(window cols 0..9, junk at col 40 row 3) = %d (expect 0)\n", mzd_first_zero_row(W));
  /* F5: concat into owned C from window A with junk */
  mzd_t *Q = mzd_init(1, 128); for (int j=0;j<128;j++) mzd_write_bit(Q,0,j,1);
  mzd_t *QA = mzd_init_window(Q, 0, 0, 1, 3);
  mzd_t *Bz = mzd_init(1, 2);
  mzd_t *Cc = mzd_concat(NULL, QA, Bz);
  printf("concat padding word = %016lx (expect 0000000000000007)\n", (unsigned long)mzd_row(Cc,0)[0]);
  fflush(stdout);
  /* F1: strassen */
  if (fork()==0){ mzd_t *X = mzd_init(100,100), *Y = mzd_init(100,100); mzd_randomize(X); mzd_randomize(Y); mzd_t *Z = mzd_mul(NULL, X, Y, 64); mzd_t *Z2 = mzd_mul_naive(NULL,X,Y); printf("mul 100x100 cutoff 64 equal=%d\n", mzd_equal(Z,Z2)); _exit(0);} 
  int st; wait(&st); printf("mzd_mul(100x100,cutoff=64) child status: signaled=%d sig=%d exit=%d\n", WIFSIGNALED(st), WIFSIGNALED(st)?WTERMSIG(st):0, WIFEXITED(st)?WEXITSTATUS(st):-1);
  /* F2: solve padding row */
  mzd_t *SA = mzd_init(1,2); mzd_write_bit(SA,0,0,1);
  mzd_t *SB = mzd_init(2,1); mzd_write_bit(SB,1,0,1); /* padding row 1 nonzero -> inconsistent */
  printf("solve_left with nonzero padding row: ret=%d (expect -1)\n", mzd_solve_left(SA,SB,0,1));
  return 0;
}
