import subprocess, json, sys, time
gb=sys.argv[1]; maxit=int(sys.argv[2])
us={'m4ri_mmc_malloc.0':17,'m4ri_mmc_free.0':17,'m4ri_mmc_cleanup.0':17}
t0=time.time()
for it in range(maxit):
    cmd=['timeout','1200','cbmc',gb,'--unwind','2','--unwindset',','.join(f'{k}:{v}' for k,v in us.items()),'--unwinding-assertions','--bounds-check','--pointer-check','--no-malloc-may-fail','--object-bits','12','--json-ui']
    t=time.time()
    out=subprocess.run(cmd,capture_output=True,text=True).stdout
    try: d=json.loads(out)
    except Exception as e:
        print('bad json / timeout', len(out), flush=True); break
    fails=[]; other=[]; status=None
    for e in d:
        if 'result' in e:
            for r in e['result']:
                if r['status']=='FAILURE':
                    (fails if '.unwind.' in r['property'] else other).append(r['property'])
        if 'cProverStatus' in e: status=e['cProverStatus']
    print(it, round(time.time()-t,1),'s', fails[:5], 'other', other[:3], status, flush=True)
    if not fails:
        print('DONE', status, other[:8], us, round(time.time()-t0), flush=True); break
    for p in fails:
        key=p.replace('.unwind.','.')
        us[key]=us.get(key,2)*2 if us.get(key,2)<64 else us.get(key,2)+64
        if '$' not in key:
            f,n=key.rsplit('.',1)
            for l in range(1,12): us[f'{f}$link{l}.{n}']=us[key]
