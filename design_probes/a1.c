#include <stdlib.h>
#include <m4ri/mmc.h>
extern mmb_t m4ri_mmc_cache[__M4RI_MMC_NBLOCKS];
size_t nondet_size(void); int nondet_int(void); unsigned char nondet_uchar(void);
/* build an arbitrary cache state satisfying INV_MMC: size==0 or data is its own live block of exactly size bytes */
static void any_state(void){
  for (int i = 0; i < __M4RI_MMC_NBLOCKS; ++i) {
    size_t s = nondet_size();
    __CPROVER_assume(s <= 4096);
    m4ri_mmc_cache[i].size = s;
    if (s) { m4ri_mmc_cache[i].data = malloc(s); __CPROVER_assume(m4ri_mmc_cache[i].data != NULL); }
    else m4ri_mmc_cache[i].data = NULL;
  }
}
static int inv_slot(int i){ return m4ri_mmc_cache[i].size == 0 || (__CPROVER_rw_ok(m4ri_mmc_cache[i].data, m4ri_mmc_cache[i].size) && __CPROVER_OBJECT_SIZE(m4ri_mmc_cache[i].data) == m4ri_mmc_cache[i].size); }
void h_malloc(void){
  any_state();
  size_t size = nondet_size(); __CPROVER_assume(size >= 1 && size <= 4096);
  void *p = m4ri_mmc_malloc(size);
  __CPROVER_assert(p != NULL && __CPROVER_rw_ok(p, size), "block usable");
  int g = nondet_int(); __CPROVER_assume(0 <= g && g < __M4RI_MMC_NBLOCKS);
  __CPROVER_assert(inv_slot(g), "invariant preserved");
  __CPROVER_assert(m4ri_mmc_cache[g].size == 0 || !__CPROVER_same_object(m4ri_mmc_cache[g].data, p), "returned block no longer cached");
}
void h_calloc(void){
  any_state();
  size_t size = nondet_size(); __CPROVER_assume(size >= 1 && size <= 64);
  unsigned char *p = m4ri_mmc_calloc(size, 1);
  size_t g = nondet_size(); __CPROVER_assume(g < size);
  __CPROVER_assert(p[g] == 0, "zeroed whatever was recycled");
}
void h_free(void){
  any_state();
  size_t size = nondet_size(); __CPROVER_assume(size >= 1 && size <= 4096);
  void *p = malloc(size); __CPROVER_assume(p != NULL);
  void *live = malloc(8); __CPROVER_assume(live != NULL);   /* some other live block */
  m4ri_mmc_free(p, size);
  int g = nondet_int(); __CPROVER_assume(0 <= g && g < __M4RI_MMC_NBLOCKS);
  __CPROVER_assert(inv_slot(g), "invariant preserved");
  int g2 = nondet_int(); __CPROVER_assume(0 <= g2 && g2 < __M4RI_MMC_NBLOCKS && g2 != g);
  __CPROVER_assert(m4ri_mmc_cache[g].size == 0 || m4ri_mmc_cache[g2].size == 0 || !__CPROVER_same_object(m4ri_mmc_cache[g].data, m4ri_mmc_cache[g2].data), "no block cached twice");
  __CPROVER_assert(__CPROVER_rw_ok(live, 8), "live block untouched");
}
void m4ri_die(const char *errormessage, ...) { abort(); }
